"""Opaque-object ("glue") mode: orchestration code whose operations are uninterpreted.

Values of type "opaque" are terms (class Op) rendered as canonical text: parameters, object fields (`self.left_cv` always
renders as its NAME: the record it designates, not the value it currently holds), attribute/item selections, and
applications of unknown callables.  Every call of an unknown callable and every field / item store is appended to the
path's EVENT TRACE; `if` conditions over opaque terms become fresh Booleans (one per distinct text) and leave
assume / endassume markers in the trace.  Contracts then speak about the trace:

    swap_closed()        the multiset of events mentioning the left/right record is invariant under exchanging the two
                         records (C08: the right pass is the left pass of the mirrored problem)
    no_right_effect()    no event writes or passes a right-record field
    ncalls(name), call_mentions(name, k, leaf), called_before(a, b), sets(field)
"""
import ast
import re
import z3
from .vals import SObj, SFunc, SList, SNs, Unsupported, fresh_bool, fresh_name
from .expr import as_bool, bnot, band


class _GLit(ast.expr):
    """an already evaluated value re-entering evaluation"""
    _fields = ()

    def __init__(self, v):
        super().__init__()
        self.v = v
        self.lineno = 0
        self.col_offset = 0


class Op:
    """opaque term with a canonical text"""
    __slots__ = ("text", "kind")

    def __init__(self, text, kind="term"):
        self.text = text
        self.kind = kind

    def __repr__(self):
        return "Op(%s)" % self.text

    def __eq__(self, o):
        return isinstance(o, Op) and o.text == self.text

    def __hash__(self):
        return hash(self.text)


def render(v):
    if isinstance(v, Op):
        return v.text
    if isinstance(v, SObj):
        return v.name
    if isinstance(v, str):
        return repr(v)
    if isinstance(v, (int, float, bool)) or v is None:
        return repr(v)
    if isinstance(v, tuple):
        return "(" + ", ".join(render(x) for x in v) + ("," if len(v) == 1 else "") + ")"
    if isinstance(v, SList):
        return "[" + ", ".join(render(x) for x in v.items) + "]"
    if isinstance(v, dict):
        return "{" + ", ".join("%s: %s" % (render(k), render(x)) for k, x in v.items()) + "}"
    if isinstance(v, SFunc):
        return v.name or "?"
    if isinstance(v, SNs):
        return v.path
    if z3.is_expr(v):
        return str(v)
    return repr(v)


SWAP_PAIRS = [("disp_min", "right_disp_min"), ("disp_max", "right_disp_max"), ("dmin_user", "dmin_user_right"),
              ("dmax_user", "dmax_user_right"), ("img_left_pyramid", "img_right_pyramid")]


def swap_field(name):
    for a, b in SWAP_PAIRS:
        if name == a:
            return b
        if name == b:
            return a
    if name == "right_disp_map":
        return name
    if name.startswith("left_"):
        return "right_" + name[5:]
    if name.startswith("right_"):
        return "left_" + name[6:]
    return name


_FIELD = re.compile(r"self\.([A-Za-z_][A-Za-z0-9_]*)")


def swap_text(t):
    return _FIELD.sub(lambda m: "self." + swap_field(m.group(1)), t)


def mentions_record(t):
    return any(swap_field(m) != m for m in _FIELD.findall(t))


def mentions_right(t):
    for m in _FIELD.findall(t):
        if m == "right_disp_map":
            continue
        if m.startswith("right_") or m in ("dmin_user_right", "dmax_user_right", "img_right_pyramid"):
            return True
    return False


class GlueMixin:
    # ------------------------------------------------------------ trace
    def trace(self, st):
        return st.ghost.setdefault("trace", [])

    def add_event(self, st, ev):
        st.ghost["trace"] = list(st.ghost.get("trace", [])) + [ev]

    def glue(self):
        return bool(self.opt("glue", False))

    # ------------------------------------------------------------ values
    def obj_attr(self, base, a, st, n):
        if self.glue():
            return Op("%s.%s" % (base.name, a), "field")
        return super().obj_attr(base, a, st, n)

    def obj_setattr(self, base, a, v, st, t):
        if self.glue():
            self.add_event(st, ("set", "%s.%s" % (base.name, a), render(v)))
            # reads keep rendering the field by name: nothing to store
            return
        return super().obj_setattr(base, a, v, st, t)

    def e_Attribute(self, n, st):
        if self.glue():
            base = self.eval(n.value, st)
            if isinstance(base, Op):
                return Op("%s.%s" % (base.text, n.attr))
            if isinstance(base, SObj):
                return Op("%s.%s" % (base.name, n.attr), "field")
            if isinstance(base, SNs):
                return Op("%s.%s" % (base.path.split(".")[-1], n.attr), "global")
            if isinstance(base, str) and n.attr in ("split",):
                return SFunc(name="builtin." + n.attr, handler=("method", base))
            from .lazy import _Lit
            return super().e_Attribute(ast.Attribute(value=_Lit(base), attr=n.attr, ctx=n.ctx, lineno=n.lineno, col_offset=0), st)
        return super().e_Attribute(n, st)

    def e_Subscript(self, n, st):
        if self.glue():
            base = self.eval(n.value, st)
            if isinstance(base, Op):
                k = self.eval(n.slice, st)
                return Op("%s[%s]" % (base.text, render(k)))
            from .lazy import _Lit
            return super().e_Subscript(ast.Subscript(value=_Lit(base), slice=n.slice, ctx=n.ctx, lineno=n.lineno, col_offset=0), st)
        return super().e_Subscript(n, st)

    def assign_target(self, t, v, st, s=None):
        if self.glue() and isinstance(t, ast.Subscript):
            base = self.eval(t.value, st)
            if isinstance(base, Op):
                k = self.eval(t.slice, st)
                self.add_event(st, ("setitem", "%s[%s]" % (base.text, render(k)), render(v)))
                return
        if self.glue() and isinstance(t, (ast.Tuple, ast.List)) and isinstance(v, Op):
            for i, tt in enumerate(t.elts):
                self.assign_target(tt, Op("%s[%d]" % (v.text, i)), st, s)
            return
        return super().assign_target(t, v, st, s)

    def e_Name(self, n, st):
        if self.glue() and n.id not in st.vars and n.id not in self.bound_vars:
            try:
                return super().e_Name(n, st)
            except Unsupported:
                return Op(n.id, "global")
        return super().e_Name(n, st)

    def e__GLit(self, n, st):
        return n.v

    def e_Call(self, n, st):
        if not self.glue():
            return super().e_Call(n, st)
        # spec builtins and known python builtins go the normal way
        if isinstance(n.func, ast.Name) and (n.func.id in GLUE_SPEC or n.func.id in ("len", "implies", "all", "any", "old", "range", "list", "tuple", "repr")):
            if n.func.id in GLUE_SPEC:
                args = [self.eval(a, st) for a in n.args]
                return getattr(self, "g_" + n.func.id)(args, st)
            if n.func.id == "range" and not self.spec:
                vs = [self.eval(a, st) for a in n.args]
                if any(isinstance(v, Op) for v in vs):
                    return Op("range(%s)" % ", ".join(render(v) for v in vs))      # an opaque number of rounds
                return super().e_Call(ast.Call(func=n.func, args=[_GLit(v) for v in vs], keywords=[]), st)
            if n.func.id in ("list", "tuple") and len(n.args) == 1 and not self.spec:
                v = self.eval(n.args[0], st)
                if isinstance(v, Op):
                    return Op("%s(%s)" % (n.func.id, v.text))      # a snapshot of an opaque iterable: opaque
                return super().e_Call(ast.Call(func=n.func, args=[_GLit(v)], keywords=[]), st)
            if n.func.id == "len" and len(n.args) == 1 and not self.spec:
                v = self.eval(n.args[0], st)
                if isinstance(v, Op):
                    return Op("len(%s)" % v.text)      # the size of an opaque object: an opaque number
                return super().e_Call(ast.Call(func=n.func, args=[_GLit(v)], keywords=[]), st)
            return super().e_Call(n, st)
        t = ast.unparse(n.func)
        if t.startswith("logging.") or t == "print":
            return None
        if t == "isinstance":
            return self.cond_bool("isinstance(%s)" % ", ".join(render(self.eval(a, st)) for a in n.args))
        fn = self.eval(n.func, st)
        if isinstance(fn, SFunc) and fn.handler and fn.handler[0] == "method" and isinstance(fn.handler[1], str):
            return super().e_Call(n, st)  # str.split etc. on concrete strings
        args = []
        for a in n.args:
            if isinstance(a, ast.Starred):
                args.append("*" + render(self.eval(a.value, st)))
            else:
                args.append(render(self.eval(a, st)))
        for k in n.keywords:
            v = self.eval(k.value, st)
            args.append(("**" + render(v)) if k.arg is None else "%s=%s" % (k.arg, render(v)))
        callee = render(fn) if isinstance(fn, (Op, SFunc)) else t
        if isinstance(fn, SFunc) and fn.target and not isinstance(fn, Op):
            callee = fn.target.split(".")[-1] if fn.name is None else fn.name
        text = "%s(%s)" % (callee, ", ".join(args))
        self.add_event(st, ("call", callee, text, tuple(args)))
        if callee.split(".")[-1][:1].isupper():
            # a step object being constructed: a neutral local object (its constructor arguments do not make it part of
            # the left or of the right record)
            return Op("<%s@L%d>" % (callee.split(".")[-1], n.lineno), "object")
        return Op(text, "app")

    def e_BinOp(self, n, st):
        if self.glue():
            a = self.eval(n.left, st)
            b = self.eval(n.right, st)
            if isinstance(a, Op) or isinstance(b, Op):
                from .expr import BINOPS
                return Op("(%s %s %s)" % (render(a), BINOPS[type(n.op)], render(b)))
            from .lazy import _Lit
            return super().e_BinOp(ast.BinOp(left=_Lit(a), op=n.op, right=_Lit(b), lineno=n.lineno, col_offset=0), st)
        return super().e_BinOp(n, st)

    def e_BoolOp(self, n, st):
        if self.glue() and not self.spec:
            # truthiness of an opaque term: a fresh Boolean per distinct text (same treatment as `if term:` / `not term`)
            vals = []
            for e in n.values:
                v = self.eval(e, st)
                vals.append(_GLit(self.cond_bool(v.text) if isinstance(v, Op) else v))
            return super().e_BoolOp(ast.BoolOp(op=n.op, values=vals), st)
        return super().e_BoolOp(n, st)

    def e_UnaryOp(self, n, st):
        if self.glue():
            v = self.eval(n.operand, st)
            if isinstance(v, Op):
                if isinstance(n.op, ast.Not):
                    return bnot(self.cond_bool(v.text))
                return Op("(%s%s)" % ({ast.USub: "-", ast.UAdd: "+", ast.Invert: "~"}[type(n.op)], v.text))
            from .lazy import _Lit
            return super().e_UnaryOp(ast.UnaryOp(op=n.op, operand=_Lit(v), lineno=n.lineno, col_offset=0), st)
        return super().e_UnaryOp(n, st)

    def s_For(self, s, st):
        """glue mode, loop over an OPAQUE iterable: the body is executed once for a generic element `<each x of it>` between
        ("loop", it) / ("endloop", it) markers -- the events in between stand for EVERY iteration (trace predicates that count
        calls count them per iteration); the locals the body assigns are opaque after the loop.  No value state exists in glue
        mode (fields render as their names), so there is nothing else to havoc.  `break` / `continue` end the generic iteration
        (an ("exit", kind) marker is left in the trace); for-else is outside."""
        if self.glue():
            it = self.eval(s.iter, st)
            if isinstance(it, Op) and isinstance(s.target, ast.Name) and not s.orelse:
                self.add_event(st, ("loop", it.text))
                st.vars[s.target.id] = Op("<each %s of %s>" % (s.target.id, it.text))
                assigned = {t.id for x in ast.walk(s) if isinstance(x, ast.Assign) for t in x.targets if isinstance(t, ast.Name)}
                out = []
                for (s2, oc, pl) in self.exec_block(s.body, st):
                    if oc in ("normal", "break", "continue"):
                        # break: no further iteration; continue: on to the next one -- either way the loop is left normally
                        # as far as a per-iteration trace is concerned
                        if oc != "normal":
                            self.add_event(s2, ("exit", oc, it.text))
                        oc = "normal"
                        for nm in assigned:
                            s2.vars[nm] = Op("<%s after the loop over %s>" % (nm, it.text))
                        self.add_event(s2, ("endloop", it.text))
                    out.append((s2, oc, pl))
                return out
        return super().s_For(s, st)

    def g_branch(self, args, st):
        """polarity of the first branch condition whose text contains the fragment (None if not reached)"""
        for e in st.ghost.get("trace", []):
            if e[0] == "assume" and args[0] in e[1]:
                return e[2]
        return None

    def g_event_before(self, args, st):
        """both fragments occur in event texts, and the LAST event containing the first fragment precedes the FIRST event
        containing the second one"""
        texts = [(e[2] if e[0] == "call" else "%s = %s" % (e[1], e[2])) for e in self._events(st)]
        ia = [i for i, t in enumerate(texts) if args[0] in t]
        ib = [i for i, t in enumerate(texts) if args[1] in t]
        return bool(ia) and bool(ib) and ia[-1] < ib[0]

    def g_in_loop(self, args, st):
        """every event whose text contains the fragment lies between the loop / endloop markers of the loop over `it`, and
        there is at least one"""
        depth, seen, ok = 0, False, True
        for e in st.ghost.get("trace", []):
            if e[0] == "loop" and args[1] in e[1]:
                depth += 1
            elif e[0] == "endloop" and args[1] in e[1]:
                depth -= 1
            elif e[0] in ("call", "set", "setitem"):
                t = e[2] if e[0] == "call" else "%s = %s" % (e[1], e[2])
                if args[0] in t:
                    seen = True
                    ok = ok and depth > 0
        return seen and ok

    def g_break_guard(self, args, st):
        """the innermost branch condition under which the path leaves a generic iteration by `break` ('' when it breaks under
        no condition, None when the path has no break)"""
        stack, closed = [], None
        for e in st.ghost.get("trace", []):
            if e[0] == "exit" and e[1] == "break":
                # the branch that executed the break is closed by its endassume marker right before the exit marker
                return closed if closed is not None else (stack[-1] if stack else "")
            closed = None
            if e[0] == "assume":
                stack.append(e[1] if e[2] else "not (%s)" % e[1])
            elif e[0] == "endassume" and stack:
                closed = stack.pop()
        return None

    def g_result_text(self, args, st):
        """canonical text of the returned opaque term"""
        return render(self.result)

    def g_stored_at(self, args, st):
        """True iff some field/item store has a target text containing the fragment"""
        return any(e[0] in ("set", "setitem") and args[0] in e[1] for e in st.ghost.get("trace", []))

    def e_Compare(self, n, st):
        if self.glue():
            vals = [self.eval(n.left, st)] + [self.eval(c, st) for c in n.comparators]
            if any(isinstance(v, Op) for v in vals):
                from .expr import CMPOPS
                ops = []
                for o in n.ops:
                    ops.append({ast.In: "in", ast.NotIn: "not in"}.get(type(o)) or CMPOPS[type(o)])
                text = render(vals[0])
                for o, v in zip(ops, vals[1:]):
                    text += " %s %s" % (o, render(v))
                return self.cond_bool(text)
            from .lazy import _Lit
            return super().e_Compare(ast.Compare(left=_Lit(vals[0]), ops=n.ops, comparators=[_Lit(v) for v in vals[1:]],
                                                 lineno=n.lineno, col_offset=0), st)
        return super().e_Compare(n, st)

    def cond_bool(self, text):
        key = ("cond", text)
        if key not in self._uf_cache:
            b = z3.Bool(fresh_name("c"))
            self._uf_cache[key] = b
            self._cond_text = getattr(self, "_cond_text", {})
            self._cond_text[b.get_id()] = text
        return self._uf_cache[key]

    def cond_describe(self, c):
        """text of a branch condition: the text of its opaque atoms under not / and / or"""
        t = getattr(self, "_cond_text", {}).get(c.get_id())
        if t is not None:
            return t
        if z3.is_not(c):
            return "not (%s)" % self.cond_describe(c.arg(0))
        if z3.is_and(c) or z3.is_or(c):
            return (" and " if z3.is_and(c) else " or ").join("(%s)" % self.cond_describe(a) for a in c.children())
        return str(c)

    def s_If(self, s, st):
        if not self.glue():
            return super().s_If(s, st)
        c = self.eval(s.test, st)
        c = self.cond_bool(c.text) if isinstance(c, Op) else as_bool(c)
        if isinstance(c, bool):
            return self.exec_block(s.body if c else s.orelse, st)
        text = self.cond_describe(c) if z3.is_expr(c) else str(c)
        out = []
        st_t = st.fork()
        st_t.assume(c)
        self.add_event(st_t, ("assume", text, True))
        for (s2, oc, pl) in self.exec_block(s.body, st_t):
            self.add_event(s2, ("endassume", text, True))
            out.append((s2, oc, pl))
        st_f = st
        st_f.assume(z3.Not(c))
        self.add_event(st_f, ("assume", text, False))
        for (s2, oc, pl) in self.exec_block(s.orelse, st_f):
            self.add_event(s2, ("endassume", text, False))
            out.append((s2, oc, pl))
        return out

    # ------------------------------------------------------------ spec builtins over the trace
    def _events(self, st, kinds=("call", "set", "setitem")):
        return [e for e in st.ghost.get("trace", []) if e[0] in kinds]

    def g_swap_closed(self, args, st):
        """the multiset of events that mention the left/right record is invariant under left <-> right"""
        evs = []
        for e in self._events(st):
            text = e[2] if e[0] == "call" else "%s = %s" % (e[1], e[2])
            if e[0] == "call" and e[1].split(".")[-1][:1].isupper():
                continue  # constructor of a step object: neutral
            if mentions_record(text):
                evs.append(text)
        a = sorted(evs)
        b = sorted(swap_text(t) for t in evs)
        self.last_swap_report = {"events": a, "swapped": b}
        return a == b

    def g_no_right_effect(self, args, st):
        """no right-record field is written and no right PRODUCT (cost volume, disparity dataset) is passed to a step
        (reading the right image / interval is what computing the left products needs)"""
        for e in self._events(st):
            if e[0] in ("set", "setitem") and mentions_right(e[1]):
                return False
            if e[0] == "call" and not e[1].split(".")[-1][:1].isupper():
                if "self.right_cv" in e[2] or "self.right_disparity" in e[2]:
                    return False
        return True

    def g_right_enabled(self, args, st):
        """True on paths where the branch `self.right_disp_map == "cross_checking_accurate"` was taken"""
        for e in st.ghost.get("trace", []):
            if e[0] == "assume" and "right_disp_map" in e[1]:
                return e[2]
        return False

    def g_ncalls(self, args, st):
        name = args[0]
        return len([e for e in self._events(st, ("call",)) if e[1].split(".")[-1] == name or e[1] == name])

    def g_call_mentions(self, args, st):
        name, k, leaf = args
        cs = [e for e in self._events(st, ("call",)) if e[1].split(".")[-1] == name or e[1] == name]
        return k < len(cs) and leaf in cs[k][2]

    def g_call_arg_mentions(self, args, st):
        """the text of positional argument `pos` of the k-th call of `name` mentions `leaf`"""
        name, k, pos, leaf = args
        cs = [e for e in self._events(st, ("call",)) if e[1].split(".")[-1] == name or e[1] == name]
        return k < len(cs) and len(cs[k]) > 3 and pos < len(cs[k][3]) and leaf in cs[k][3][pos]

    def g_called_before(self, args, st):
        a, b = args
        names = [e[1].split(".")[-1] for e in self._events(st, ("call",))]
        return a in names and b in names and names.index(a) < len(names) - 1 - names[::-1].index(b)

    def g_sets(self, args, st):
        return any(e[0] == "set" and e[1] == args[0] for e in st.ghost.get("trace", []))

    def g_last_store(self, args, st):
        """rendered value of the last field/item store whose target text ends with the given suffix ('' if none)"""
        r = None
        for e in st.ghost.get("trace", []):
            if e[0] in ("set", "setitem") and e[1].endswith(args[0]):
                r = e[2]
        return r if r is not None else "<never stored>"

    def g_event_texts(self, args, st):
        return SList([(e[2] if e[0] == "call" else "%s = %s" % (e[1], e[2])) for e in self._events(st)])


GLUE_SPEC = {"call_arg_mentions", "swap_closed", "no_right_effect", "right_enabled", "ncalls", "call_mentions", "called_before", "sets", "event_texts", "last_store", "branch", "stored_at", "result_text", "event_before", "in_loop", "break_guard"}
