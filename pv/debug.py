"""python3-vt -m pv.debug <contract target> <substring of obligation id> [--smt out.smt2] : print one obligation"""
import sys
import z3
from . import contracts, verify


def main():
    db = contracts.ContractDB()
    cc = db.contracts.get(sys.argv[1]) or db.lemmas.get(sys.argv[1])
    if cc.kind == "lemma":
        ex, obs = verify.verify_lemma(db, cc)
    else:
        ex, obs, fi = verify.verify_contract(db, cc)
    for ob in obs:
        if sys.argv[2] in ob.id:
            print("==", ob.id, ob.text)
            for h in ob.hyps:
                print("  H:", h)
            print("  GOAL:", ob.goal)
            if "--smt" in sys.argv:
                s = z3.Solver()
                for f in ob.formula():
                    s.add(f)
                open(sys.argv[sys.argv.index("--smt") + 1], "w").write(s.to_smt2())
            if "--solve" in sys.argv:
                s = z3.Solver()
                s.set("timeout", 60000)
                for f in ob.formula():
                    s.add(f)
                print(s.check(), s.reason_unknown() if s.check() == z3.unknown else "")
            break


if __name__ == "__main__":
    main()
