"""Symbolic executor: expressions, names, subscripts.  Statements are in stmts.py, calls in calls.py."""
import ast
import z3
from . import fl, extract
from .fl import SFloat
from .vals import (SArr, SList, SObj, SFunc, SNs, SStr, Unsupported, intern_str, fresh_int, fresh_name, I)
from .state import (State, Obligation, array_read, array_write, coerce_scalar, alloc_array)
from .expr import (is_int, is_boolv, is_bv, is_float, as_bool, zb, to_int, simp_bool, band, bor, bnot, merge, val_eq,
                   arith, compare, BINOPS, CMPOPS)
from .stmts import StmtMixin
from .calls import CallMixin


class Raised:
    def __init__(self, exc, node=None):
        self.exc = exc
        self.node = node


class Exec(StmtMixin, CallMixin):
    def __init__(self, db, finfo, contract, prefix=None):
        self.db = db
        self.f = finfo
        self.c = contract
        self.prefix = prefix or finfo.qual
        self.obligations = []
        self.axioms = []
        self.inputs = []
        self.spec = False  # spec mode: no safety obligations, nan == nan, quantifiers allowed
        self.numba = finfo.numba if finfo is not None else False
        self.guard = []  # local guards (short-circuit / ifexp) in effect while evaluating
        self.old_state = None
        self.result = None
        self.counts = {}
        self.consts = {}
        self.imports = {}
        self.modname = finfo.modname if finfo is not None else None
        if finfo is not None:
            self.consts = extract.module_constants(finfo.modname)
            self.imports = extract.module_imports(finfo.modname)
        self._uf_cache = {}
        self._keep = []
        self._quick = z3.Solver()
        self._quick.set("timeout", 150)
        self.loop_ordinals = {}
        self.warnings = []
        self.frame_depth = 0
        self.bound_vars = {}  # spec-mode bound variable names -> z3 consts

    # ------------------------------------------------------------ obligations
    def oid(self, kind, tag):
        base = "%s#%s#%s" % (self.prefix, kind, tag)
        n = self.counts.get(base, 0)
        self.counts[base] = n + 1
        return base if n == 0 else "%s~%d" % (base, n)

    def emit(self, st, kind, tag, goal, node=None, text=None):
        if isinstance(goal, bool):
            if goal and kind not in ("post", "raise", "noraise", "lemma", "after"):
                return
            # contract clauses decided during VC generation (trace contracts, concrete data) are still recorded
            goal = z3.BoolVal(goal)
        hyps = list(self.axioms) + list(st.pc) + [g for g in self.guard if not isinstance(g, bool)]
        if any(isinstance(g, bool) and not g for g in self.guard):
            return
        ob = Obligation(self.oid(kind, tag), kind, hyps, goal, self.f.qual if self.f else self.prefix,
                        getattr(node, "lineno", 0), text or (ast.unparse(node) if node is not None else ""), self.inputs)
        b = self.opt("budget", None)
        if b:
            ob.budget = b   # this contract's obligations get b times the solver budget (slow but stable queries)
        self.obligations.append(ob)
        return ob

    def feasible(self, st, cond=None):
        """cheap pruning: False only when the solver refutes quickly"""
        cs = list(st.pc) + ([cond] if cond is not None and not isinstance(cond, bool) else [])
        if cond is False:
            return False
        if any(z3.is_false(c) for c in cs):
            return False
        if not self.opt("prune", True):
            return True
        try:
            r = self._quick.check(*(self.axioms_ground() + cs))
        except z3.Z3Exception:
            return True
        return r != z3.unsat

    def axioms_ground(self):
        return []

    def opt(self, k, default=None):
        return self.c.options.get(k, default) if self.c is not None else default

    # ------------------------------------------------------------ safety obligations (code mode only)
    def div_check(self, x, y, node):
        if self.spec:
            return
        st = self._cur
        if y.fin or True:
            nz = z3.Not(z3.And(fl.isfin(y), y.v == 0))
            if not z3.is_true(z3.simplify(nz)):
                self.emit(st, "div0", "L%d" % getattr(node, "lineno", 0), nz, node)
                st.assume(nz)

    def require_finite(self, x, node):
        if self.spec or x.fin:
            return
        st = self._cur
        g = fl.isfin(x)
        self.emit(st, "finite", "L%d" % getattr(node, "lineno", 0), g, node)
        st.assume(g)

    # ------------------------------------------------------------ expressions
    def eval(self, node, st):
        self._cur = st
        m = getattr(self, "e_" + type(node).__name__, None)
        if m is None:
            raise Unsupported("%s at %s:%d" % (type(node).__name__, self.f.file if self.f else "?", getattr(node, "lineno", 0)))
        return m(node, st)

    def e_Constant(self, n, st):
        v = n.value
        if isinstance(v, float):
            return fl.F(v)
        return v

    def e_Name(self, n, st):
        nm = n.id
        if nm in self.bound_vars:
            return self.bound_vars[nm]
        if nm in st.vars:
            return st.vars[nm]
        if self.spec and nm == "result":
            return self.result
        if nm in self.consts:
            return self.wrap_const(self.consts[nm])
        if nm in self.imports:
            imp = self.imports[nm]
            if imp[0] == "module":
                return SNs(imp[1])
            return self.resolve_imported(imp[1], imp[2])
        if nm in ("True", "False", "None"):
            return {"True": True, "False": False, "None": None}[nm]
        if nm in ("np", "math", "numpy"):
            return SNs({"np": "numpy"}.get(nm, nm))
        if nm in self.db.specs or nm in BUILTIN_NAMES:
            return SFunc(name=nm)
        if self.modname and self.lookup_module_function(self.modname, nm):
            return SFunc(target=self.modname + "." + nm, name=nm)
        if nm in ("ValueError", "KeyError", "TypeError", "IndexError", "AttributeError", "SystemExit", "MachineError",
                  "ZeroDivisionError", "Exception", "DictCheckerError", "MissKeyCheckerError", "int", "float", "str",
                  "bool", "list", "tuple", "dict"):
            return SFunc(name=nm)
        raise Unsupported("unbound name %s (line %d)" % (nm, n.lineno))

    def lookup_module_function(self, modname, nm):
        try:
            tree, _, _ = extract.load_module(modname)
        except extract.ExtractError:
            return False
        return any(isinstance(x, ast.FunctionDef) and x.name == nm for x in tree.body)

    def resolve_imported(self, base, name):
        if extract.module_file(base + "." + name) is not None:
            return SNs(base + "." + name)
        if extract.module_file(base) is not None:
            cs = extract.module_constants(base)
            if name in cs:
                return self.wrap_const(cs[name])
            return SFunc(target=base + "." + name, name=name)
        return SFunc(target=base + "." + name, name=name)

    def wrap_const(self, v):
        if isinstance(v, float):
            return fl.F(v)
        if isinstance(v, list):
            return SList([self.wrap_const(x) for x in v])
        if isinstance(v, tuple):
            return tuple(self.wrap_const(x) for x in v)
        return v

    def e_Attribute(self, n, st):
        base = self.eval(n.value, st)
        a = n.attr
        if isinstance(base, SNs):
            path = base.path + "." + a
            if extract.module_file(base.path) is not None and extract.module_file(path) is None:
                cs = extract.module_constants(base.path)
                if a in cs:
                    return self.wrap_const(cs[a])
                return SFunc(target=path, name=path)
            if base.path == "numpy":
                if a == "nan":
                    return fl.FNAN
                if a == "inf":
                    return fl.FPINF
                if a == "newaxis":
                    return None
                if a in ("float32", "float64", "int16", "int64", "uint16", "uint32", "int32", "bool_"):
                    return SFunc(name="numpy." + a)
            if base.path == "math":
                if a == "inf":
                    return fl.FPINF
                if a == "nan":
                    return fl.FNAN
            if extract.module_file(path) is not None:
                return SNs(path)
            return SFunc(name=path)
        if isinstance(base, SArr):
            if a == "shape":
                return tuple(base.view_shape())
            if a == "size":
                r = 1
                for s in base.view_shape():
                    r = r * s
                return r
            if a == "ndim":
                return base.ndim
            if a in ("data",):
                return base
            if a in ("T",) and base.ndim == 1:
                return base
            return SFunc(name="ndarray." + a, handler=("method", base))
        if isinstance(base, SObj):
            key = (base.name, a)
            if key in st.attrs:
                return st.attrs[key]
            if a in base.attrs:
                return base.attrs[a]
            r = self.obj_attr(base, a, st, n)
            if r is not NotImplemented:
                return r
            raise Unsupported("attribute %s.%s (line %d)" % (base.name, a, n.lineno))
        if isinstance(base, (SList, list, dict, str, tuple, set, frozenset)) or type(base).__name__ == "_Map":
            return SFunc(name="builtin." + a, handler=("method", base))
        if isinstance(base, SFunc) and base.target and not base.handler:
            return SFunc(target=base.target + "." + a, name=(base.name or base.target) + "." + a)   # Class.static_method
        if isinstance(base, SFunc) and base.name and base.name.startswith("numpy.") and not base.handler and not base.target:
            return SFunc(name=base.name + "." + a)   # numpy sub-namespaces: np.lib.stride_tricks.as_strided
        raise Unsupported("attribute %s on %r (line %d)" % (a, type(base), n.lineno))

    def obj_attr(self, base, a, st, n):
        # a method of the class the verified function belongs to: self.other_method
        if base.name == "self" and self.f is not None and self.f.cls is not None:
            for m in self.f.cls.body:
                if isinstance(m, ast.FunctionDef) and m.name == a:
                    qual = ".".join(self.f.qual.split(".")[:-1] + [a])
                    return SFunc(target=qual, name=a)
            # inherited method: walk the base classes (resolved through the imports of each class's module)
            cls_q = ".".join(self.f.qual.split(".")[:-1])
            seen = set()
            while cls_q and cls_q not in seen:
                seen.add(cls_q)
                try:
                    node, _, _, modname = extract.load_class(cls_q)
                except Exception:
                    break
                for m in node.body:
                    if isinstance(m, ast.FunctionDef) and m.name == a:
                        return SFunc(target=cls_q + "." + a, name=a)
                nxt = None
                for b in node.bases:
                    bn = ast.unparse(b)
                    head = bn.split(".")[0]
                    imps = extract.module_imports(modname)
                    if head in imps:
                        imp = imps[head]
                        q = imp[1] if imp[0] == "module" else imp[1] + "." + imp[2]
                        nxt = q + bn[len(head):]
                    else:
                        nxt = modname + "." + bn
                    break
                cls_q = nxt
        return NotImplemented

    def e_Tuple(self, n, st):
        return tuple(self.eval(e, st) for e in n.elts)

    def e_List(self, n, st):
        out = []
        for e in n.elts:
            if isinstance(e, ast.Starred):
                v = self.eval(e.value, st)
                if isinstance(v, (SList, tuple, list)):
                    out += list(v.items if isinstance(v, SList) else v)
                elif type(v).__name__ == "Op":      # orchestration mode: an opaque sequence spliced in
                    out.append(type(v)("*" + v.text))
                else:
                    raise Unsupported("starred %r in a list (line %d)" % (type(v), n.lineno))
            else:
                out.append(self.eval(e, st))
        return SList(out)

    def e_Set(self, n, st):
        items = [self.eval(e_, st) for e_ in n.elts]
        if not all(isinstance(x_, (str, int)) and not isinstance(x_, bool) for x_ in items):
            raise Unsupported("set literal of non-constant elements (line %d)" % n.lineno)
        return set(items)

    def e_JoinedStr(self, n, st):
        # an f-string (only ever a message here): rendered, symbolic parts as placeholders
        parts = []
        for v_ in n.values:
            if isinstance(v_, ast.Constant):
                parts.append(str(v_.value))
            else:
                try:
                    val = self.eval(v_.value, st)
                    parts.append(val if isinstance(val, str) else "<%s>" % type(val).__name__)
                except Unsupported:
                    parts.append("<?>")
        return "".join(parts)

    def e_Dict(self, n, st):
        out = {}
        for k, v in zip(n.keys, n.values):
            if k is None:
                vv = self.eval(v, st)
                if isinstance(vv, dict):
                    out.update(vv)          # {**d, ...} of a concrete-keyed dictionary
                    continue
                if type(vv).__name__ == "Op":   # orchestration mode: an opaque mapping spliced in
                    out["**" + vv.text] = vv
                    continue
                raise Unsupported("dict unpacking (line %d)" % n.lineno)
            kk = self.eval(k, st)
            if not isinstance(kk, (str, int)):
                raise Unsupported("dict literal with symbolic key (line %d)" % n.lineno)
            out[kk] = self.eval(v, st)
        return out

    def e_UnaryOp(self, n, st):
        v = self.eval(n.operand, st)
        if isinstance(n.op, ast.Not):
            return bnot(as_bool(v))
        if isinstance(n.op, ast.USub):
            if is_float(v):
                return fl.neg(fl.F(v))
            return -to_int(v)
        if isinstance(n.op, ast.UAdd):
            return v
        if isinstance(n.op, ast.Invert):
            if is_bv(v):
                return ~v
            if is_boolv(v):
                return bnot(v)
            return -to_int(v) - 1
        raise Unsupported("unary")

    def e_BinOp(self, n, st):
        a = self.eval(n.left, st)
        b = self.eval(n.right, st)
        op = BINOPS[type(n.op)]
        if isinstance(a, (set, frozenset)) and isinstance(b, (set, frozenset)) and op in ("-", "|", "&"):
            return a - b if op == "-" else (a | b if op == "|" else a & b)
        if isinstance(a, (str, SStr)) and isinstance(b, (str, SStr)) and op == "+":
            from .vals import str_cat
            return str_cat(a, b)
        if isinstance(a, (SList, tuple)) and isinstance(b, (SList, tuple)) and op == "+":
            if isinstance(a, tuple):
                return a + tuple(b)
            return SList(a.items + list(b.items if isinstance(b, SList) else b))
        if isinstance(a, SArr) or isinstance(b, SArr):
            return self.array_binop(op, a, b, st, n)
        self._cur = st
        return arith(op, a, b, self, n)

    def array_binop(self, op, a, b, st, n):
        raise Unsupported("array arithmetic (line %d)" % n.lineno)

    def e_BoolOp(self, n, st):
        isand = isinstance(n.op, ast.And)
        acc = []
        pushed = 0
        try:
            for e in n.values:
                v = as_bool(self.eval(e, st))
                if isinstance(v, bool):
                    if v != isand:  # decides the result
                        if not acc:
                            return v
                        acc.append(v)
                        break
                    continue
                acc.append(v)
                self.guard.append(v if isand else z3.Not(v))
                pushed += 1
        finally:
            for _ in range(pushed):
                self.guard.pop()
        if not acc:
            return isand
        return band(*acc) if isand else bor(*acc)

    def e_Compare(self, n, st):
        left = self.eval(n.left, st)
        res = []
        for op, rn in zip(n.ops, n.comparators):
            right = self.eval(rn, st)
            if isinstance(op, (ast.In, ast.NotIn)):
                r = self.contains(right, left, st, n)
                res.append(r if isinstance(op, ast.In) else bnot(r))
            else:
                res.append(compare(CMPOPS[type(op)], left, right, self.spec))
            left = right
        return band(*res)

    def contains(self, container, item, st, n):
        if isinstance(container, (tuple, list)):
            return bor(*[val_eq(item, x, self.spec) for x in container])
        if isinstance(container, SList):
            return bor(*[val_eq(item, x, self.spec) for x in container.items])
        if isinstance(container, dict):
            return bor(*[val_eq(item, x, self.spec) for x in container.keys()])
        if isinstance(container, str) and isinstance(item, str):
            return item in container
        if isinstance(container, (set, frozenset)) and isinstance(item, (str, int)):
            return item in container
        raise Unsupported("in on %r" % type(container))

    def e_IfExp(self, n, st):
        c = as_bool(self.eval(n.test, st))
        if isinstance(c, bool):
            return self.eval(n.body if c else n.orelse, st)
        self.guard.append(c)
        try:
            a = self.eval(n.body, st)
        finally:
            self.guard.pop()
        self.guard.append(z3.Not(c))
        try:
            b = self.eval(n.orelse, st)
        finally:
            self.guard.pop()
        return merge(c, a, b)

    # ------------------------------------------------------------ subscripts
    def index_list(self, sl, st):
        if isinstance(sl, ast.Tuple):
            return [self.eval_index(e, st) for e in sl.elts]
        return [self.eval_index(sl, st)]

    def eval_index(self, e, st):
        if isinstance(e, ast.Slice):
            return ("slice", None if e.lower is None else self.eval(e.lower, st),
                    None if e.upper is None else self.eval(e.upper, st),
                    None if e.step is None else self.eval(e.step, st))
        return self.eval(e, st)

    def norm_index(self, arr_name, i, n, st, node):
        """numba/numpy index normalisation: negative wraps; emits the in-bounds obligation (code mode)"""
        i = to_int(i)
        if self.spec and not isinstance(i, int):
            return i  # specification indices are mathematical: no wrap-around, keeps quantifier patterns matchable
        if isinstance(i, int) and i >= 0:
            ni = i
        elif isinstance(i, int):
            ni = n + i
        else:
            neg = simp_bool(i < 0)
            if neg is False or (not self.spec and self.proved_quick(st, i >= 0)):
                ni = i
            elif neg is True:
                ni = n + i
            else:
                ni = z3.If(i < 0, i + n, i)
        if not self.spec:
            g = band(simp_bool(to_z(ni) >= 0), simp_bool(to_z(ni) < to_z(n)))
            if g is not True:
                self.emit(st, "bounds", "L%d" % getattr(node, "lineno", 0), g, node,
                          "index %s of %s within [0,%s)" % (ni, arr_name, n))
                st.assume(g)
            if z3.is_expr(ni) and self.opt("witness_marks", False) and hasattr(self, "witness_mark"):
                # every index the code actually uses is a candidate witness for the existentials of the specification
                st.assume(self.witness_mark(ni))
        return ni

    def proved_quick(self, st, goal):
        try:
            r = self._quick.check(*(list(st.pc) + [g for g in self.guard if not isinstance(g, bool)] + [z3.Not(goal)]))
        except z3.Z3Exception:
            return False
        return r == z3.unsat

    def e_Subscript(self, n, st):
        base = self.eval(n.value, st)
        self._cur = st
        if isinstance(base, SArr):
            idx = self.index_list(n.slice, st)
            return self.array_get(base, idx, st, n)
        if isinstance(base, (tuple, list, SList)):
            items = base.items if isinstance(base, SList) else base
            i = self.eval_index(n.slice, st)
            if isinstance(i, tuple) and i and i[0] == "slice":
                lo, hi, stp = i[1], i[2], i[3]
                if all(x is None or isinstance(x, int) for x in (lo, hi, stp)):
                    r = items[slice(lo, hi, stp)]
                    return SList(r) if isinstance(base, SList) else r
                raise Unsupported("symbolic slice of list")
            i = to_int(i)
            if isinstance(i, int):
                if not -len(items) <= i < len(items):
                    if self.spec:
                        raise Unsupported("spec index out of range (line %d)" % n.lineno)
                    self.emit(st, "bounds", "L%d" % n.lineno, False, n)
                    st.assume(False)
                    return items[0] if items else 0
                return items[i]
            i2 = self.norm_index("list", i, len(items), st, n)
            r = items[-1]
            for k in range(len(items) - 2, -1, -1):
                r = merge(i2 == k, items[k], r)
            return r
        if isinstance(base, dict):
            k = self.eval(n.slice, st)
            if isinstance(k, (str, int)) and k in base:
                return base[k]
            raise Unsupported("dict key %r (line %d)" % (k, n.lineno))
        if isinstance(base, SObj):
            return self.obj_getitem(base, self.eval(n.slice, st), st, n)
        raise Unsupported("subscript of %r (line %d)" % (type(base), n.lineno))

    def obj_getitem(self, base, key, st, n):
        k = (base.name, "[%r]" % (key,))
        if k in st.attrs:
            return st.attrs[k]
        raise Unsupported("item %r of %s (line %d)" % (key, base.name, n.lineno))

    def array_get(self, arr, idx, st, n):
        shape = arr.view_shape()
        if any(isinstance(i, tuple) for i in idx) or len(idx) < len(shape):
            return self.array_view(arr, idx, st, n)
        if len(idx) > len(shape):
            raise Unsupported("too many indices (line %d)" % n.lineno)
        norm = [self.norm_index(arr.name, i, s, st, n) for i, s in zip(idx, shape)]
        if st.log is not None and not self.spec:
            st.log.append(("R", arr.cell, tuple(list(arr.fixed) + norm), list(st.pc) + list(self.guard)))
        return array_read(st, arr, norm)

    def array_view(self, arr, idx, st, n):
        # a[i] on a 2-D array -> row view; everything else is handled by the numpy layer (calls.py)
        if all(not isinstance(i, tuple) for i in idx) and len(idx) < arr.ndim:
            shape = arr.view_shape()
            norm = [self.norm_index(arr.name, i, s, st, n) for i, s in zip(idx, shape)]
            return SArr(arr.cell, arr.dt, arr.shape, tuple(arr.fixed) + tuple(norm), arr.name)
        return self.slice_view(arr, idx, st, n)

    def slice_view(self, arr, idx, st, n):
        raise Unsupported("slicing (line %d)" % n.lineno)

    # ------------------------------------------------------------ spec-mode evaluation helpers
    def eval_spec(self, node, st):
        old = self.spec
        self.spec = True
        try:
            return self.eval(node, st)
        finally:
            self.spec = old

    def e_Lambda(self, n, st):
        return ("lambda", n, dict(st.vars))

    def e_GeneratorExp(self, n, st):
        return ("genexp", n)

    def e_ListComp(self, n, st):
        # concrete comprehension over a concrete iterable
        if len(n.generators) != 1:
            raise Unsupported("list comprehension form (line %d)" % n.lineno)
        g = n.generators[0]
        it = self.eval(g.iter, st)
        items = it.items if isinstance(it, SList) else it
        if isinstance(items, dict):
            items = list(items.keys())
        if not isinstance(items, (list, tuple, range)):
            raise Unsupported("comprehension over symbolic iterable (line %d)" % n.lineno)
        out = []
        saved = dict(st.vars)
        for x in items:
            self.assign_target(g.target, x, st)
            keep = [as_bool(self.eval(c_, st)) for c_ in g.ifs]
            if not all(isinstance(k_, bool) for k_ in keep):
                st.vars = saved
                raise Unsupported("list comprehension with a symbolic filter (line %d)" % n.lineno)
            if not all(keep):
                continue
            out.append(self.eval(n.elt, st))
        st.vars = saved
        return SList(out)


def to_z(v):
    return z3.IntVal(v) if isinstance(v, int) else v


BUILTIN_NAMES = {"array_of", "min", "max", "abs", "int", "float", "len", "range", "prange", "isnan", "isfinite", "isinf", "all", "any",
                 "implies", "eq", "old", "sum", "floor", "ceil", "bool", "list", "tuple", "enumerate", "zip", "round",
                 "literal_eval", "print", "isinstance", "str", "sorted", "map", "rint", "sqrt", "bit", "forall_cells",
                 "shape_eq", "unchanged", "trunc", "dict", "type", "iff", "tok", "sum32", "Window", "repr", "Margins", "filter", "set", "written_file", "astuple"}
