"""Extended-real model of Python/numpy floats for the symbolic executor.

A float is (nan, pinf, ninf, val): three mutually exclusive Boolean flags and a z3 Real that is meaningful only when
no flag is set.  In arrays / function arguments the flags are packed into one value of the enum sort FK
{fin, nan, pinf, ninf}.  Finite arithmetic is EXACT (no rounding, no float32/float64 distinction) -- this is the
"machine arithmetic treated as mathematical" assumption listed in every evidence file.
"""
import math
import z3

FK, (FIN, NAN, PINF, NINF) = z3.EnumSort("FK", ["fin", "nan", "pinf", "ninf"])
R0 = z3.RealVal(0)
T = z3.BoolVal(True)
Fa = z3.BoolVal(False)


def _and(*xs):
    out = []
    for x in xs:
        if z3.is_false(x):
            return Fa
        if z3.is_true(x):
            continue
        out.append(x)
    if not out:
        return T
    return out[0] if len(out) == 1 else z3.And(*out)


def _or(*xs):
    out = []
    for x in xs:
        if z3.is_true(x):
            return T
        if z3.is_false(x):
            continue
        out.append(x)
    if not out:
        return Fa
    return out[0] if len(out) == 1 else z3.Or(*out)


def _not(x):
    if z3.is_true(x):
        return Fa
    if z3.is_false(x):
        return T
    return z3.Not(x)


class SFloat:
    __slots__ = ("nan", "pinf", "ninf", "v", "fin", "_k")

    def __init__(self, k, v, fin=False):
        """from a packed kind term k (sort FK) and a Real"""
        self.v = v
        self._k = k
        if fin or (z3.is_app(k) and k.eq(FIN)):
            self.fin = True
            self.nan = self.pinf = self.ninf = Fa
            self._k = FIN
        else:
            self.fin = False
            if z3.is_app(k) and k.eq(NAN):
                self.nan, self.pinf, self.ninf = T, Fa, Fa
            elif z3.is_app(k) and k.eq(PINF):
                self.nan, self.pinf, self.ninf = Fa, T, Fa
            elif z3.is_app(k) and k.eq(NINF):
                self.nan, self.pinf, self.ninf = Fa, Fa, T
            else:
                self.nan, self.pinf, self.ninf = (k == NAN), (k == PINF), (k == NINF)

    @classmethod
    def flags(cls, nan, pinf, ninf, v):
        o = cls.__new__(cls)
        o.nan, o.pinf, o.ninf, o.v = nan, pinf, ninf, v
        o.fin = z3.is_false(nan) and z3.is_false(pinf) and z3.is_false(ninf)
        o._k = FIN if o.fin else None
        return o

    @property
    def k(self):
        if self._k is None:
            self._k = z3.If(self.nan, NAN, z3.If(self.pinf, PINF, z3.If(self.ninf, NINF, FIN)))
        return self._k

    def __repr__(self):
        return "SFloat(%s,%s)" % (self.k, self.v)


def F(v):
    """finite float from a python number or z3 Int/Real expr"""
    if isinstance(v, SFloat):
        return v
    if isinstance(v, bool):
        v = int(v)
    if isinstance(v, float):
        if math.isnan(v):
            return FNAN
        if math.isinf(v):
            return FPINF if v > 0 else FNINF
        return SFloat(FIN, z3.RealVal(repr(v)), True)
    if isinstance(v, int):
        return SFloat(FIN, z3.RealVal(v), True)
    if z3.is_bool(v):
        return SFloat(FIN, z3.If(v, z3.RealVal(1), R0), True)
    if z3.is_int(v):
        return SFloat(FIN, z3.ToReal(v), True)
    if z3.is_real(v):
        return SFloat(FIN, v, True)
    if z3.is_bv(v):
        return SFloat(FIN, z3.ToReal(z3.BV2Int(v, False)), True)
    raise TypeError("F(%r)" % (v,))


FNAN = SFloat(NAN, R0)
FPINF = SFloat(PINF, R0)
FNINF = SFloat(NINF, R0)


def isnan(a):
    return a.nan


def isfin(a):
    if a.fin:
        return T
    return _not(_or(a.nan, a.pinf, a.ninf))


def isinf(a):
    return _or(a.pinf, a.ninf)


def neg(a):
    if a.fin:
        return SFloat(FIN, -a.v, True)
    return SFloat.flags(a.nan, a.ninf, a.pinf, -a.v)


def _with_kind_of(a, v):
    """a float with a's flags (same packed kind term) and value v"""
    o = SFloat.flags(a.nan, a.pinf, a.ninf, v)
    o._k = a._k
    return o


def add(a, b):
    if a.fin and b.fin:
        return SFloat(FIN, a.v + b.v, True)
    if b.fin:  # x + finite has exactly x's kind
        return _with_kind_of(a, a.v + b.v)
    if a.fin:
        return _with_kind_of(b, a.v + b.v)
    nan = _or(a.nan, b.nan, _and(a.pinf, b.ninf), _and(a.ninf, b.pinf))
    pinf = _and(_not(nan), _or(a.pinf, b.pinf))
    ninf = _and(_not(nan), _or(a.ninf, b.ninf))
    return SFloat.flags(nan, pinf, ninf, a.v + b.v)


def sub(a, b):
    return add(a, neg(b))


def _pos(a):
    """a > 0 (inf included), a not nan"""
    return _or(a.pinf, _and(isfin(a), a.v > 0))


def _neg(a):
    return _or(a.ninf, _and(isfin(a), a.v < 0))


def _zero(a):
    return _and(isfin(a), a.v == 0)


def mul(a, b):
    if a.fin and b.fin:
        return SFloat(FIN, a.v * b.v, True)
    anyinf = _or(isinf(a), isinf(b))
    nan = _or(a.nan, b.nan, _and(anyinf, _or(_zero(a), _zero(b))))
    pos = _or(_and(_pos(a), _pos(b)), _and(_neg(a), _neg(b)))
    pinf = _and(_not(nan), anyinf, pos)
    ninf = _and(_not(nan), anyinf, _not(pos))
    return SFloat.flags(nan, pinf, ninf, a.v * b.v)


def div_nonzero(a, b):
    """a / b where a finite b is non-zero (the b == 0 case is the caller's: obligation or div_array)"""
    if a.fin and b.fin:
        return SFloat(FIN, a.v / b.v, True)
    nan = _or(a.nan, b.nan, _and(isinf(a), isinf(b)))
    # inf / finite -> inf with sign ; finite / inf -> 0
    posb = _pos(b)
    pinf = _and(_not(nan), isfin(b), _or(_and(a.pinf, posb), _and(a.ninf, _not(posb))))
    ninf = _and(_not(nan), isfin(b), _or(_and(a.ninf, posb), _and(a.pinf, _not(posb))))
    v = z3.If(_and(isfin(a), isfin(b)), a.v / b.v, R0)
    return SFloat.flags(nan, pinf, ninf, v)


def div_array(a, b):
    """numpy array/array (or np.float32 scalar) division: x/0 -> +-inf, 0/0 -> nan, no exception"""
    bz = _zero(b)
    r = div_nonzero(a, b)
    nan = _or(_and(_not(bz), r.nan), _and(bz, _or(a.nan, _zero(a))))
    pinf = _or(_and(_not(bz), r.pinf), _and(bz, _not(a.nan), _pos(a)))
    ninf = _or(_and(_not(bz), r.ninf), _and(bz, _not(a.nan), _neg(a)))
    return SFloat.flags(nan, pinf, ninf, z3.If(bz, R0, r.v))


def fabs(a):
    av = z3.If(a.v >= 0, a.v, -a.v)
    if a.fin:
        return SFloat(FIN, av, True)
    return SFloat.flags(a.nan, _or(a.pinf, a.ninf), Fa, av)


def lt(a, b):
    if a.fin and b.fin:
        return a.v < b.v
    return _and(_not(a.nan), _not(b.nan),
                _or(_and(a.ninf, _not(b.ninf)), _and(b.pinf, _not(a.pinf)), _and(isfin(a), isfin(b), a.v < b.v)))


def le(a, b):
    if a.fin and b.fin:
        return a.v <= b.v
    return _and(_not(a.nan), _not(b.nan), _or(a.ninf, b.pinf, _and(isfin(a), isfin(b), a.v <= b.v)))


def eq(a, b):
    """IEEE ==  (nan != nan)"""
    if a.fin and b.fin:
        return a.v == b.v
    return _and(_not(a.nan), _not(b.nan),
                _or(_and(isfin(a), isfin(b), a.v == b.v), _and(a.pinf, b.pinf), _and(a.ninf, b.ninf)))


def same(a, b):
    """spec identity: nan is the same as nan"""
    if a.fin and b.fin:
        return a.v == b.v
    return _and(a.nan == b.nan, a.pinf == b.pinf, a.ninf == b.ninf, z3.Implies(_and(isfin(a), isfin(b)), a.v == b.v))


def ite(c, a, b):
    if a.fin and b.fin:
        return SFloat(FIN, z3.If(c, a.v, b.v), True)
    return SFloat.flags(z3.If(c, a.nan, b.nan), z3.If(c, a.pinf, b.pinf), z3.If(c, a.ninf, b.ninf), z3.If(c, a.v, b.v))


def fmin2(a, b):
    """python/numba builtin min(a, b) == b if b < a else a"""
    return ite(lt(b, a), b, a)


def fmax2(a, b):
    """python/numba builtin max(a, b) == b if b > a else a"""
    return ite(lt(a, b), b, a)


def trunc_int(a):
    """int(a) for a finite a (obligation on finiteness is the caller's)"""
    v = a.v
    return z3.If(v >= 0, z3.ToInt(v), -z3.ToInt(-v))


def floor_int(a):
    return z3.ToInt(a.v)


def ceil_int(a):
    return -z3.ToInt(-a.v)


def rint(a):
    """numpy.rint: round half to even; NaN and infinities are kept"""
    v = a.v
    fl_ = z3.ToInt(v)
    frac = v - z3.ToReal(fl_)
    r = z3.If(frac * 2 < 1, fl_, z3.If(frac * 2 > 1, fl_ + 1, z3.If(fl_ % 2 == 0, fl_, fl_ + 1)))
    return _with_kind_of(a, z3.ToReal(r))


def rint_int(a):
    v = a.v
    fl_ = z3.ToInt(v)
    frac = v - z3.ToReal(fl_)
    return z3.If(frac * 2 < 1, fl_, z3.If(frac * 2 > 1, fl_ + 1, z3.If(fl_ % 2 == 0, fl_, fl_ + 1)))


_SQ = z3.Function("square!", z3.RealSort(), z3.RealSort())


def square_uf(a):
    """a ** 2 with the square of the value uninterpreted (flags as for a * a: NaN stays NaN, +-inf gives +inf)"""
    if a.fin:
        return SFloat(FIN, _SQ(a.v), True)
    return SFloat.flags(a.nan, _or(a.pinf, a.ninf), z3.BoolVal(False), _SQ(a.v))
