"""Extended-real model of Python/numpy floats for the symbolic executor.

A float is (kind, val): kind in {fin, nan, pinf, ninf} (z3 enum sort FK), val a
z3 Real that is meaningful only when kind == fin.  Finite arithmetic is EXACT
(no rounding, no float32/float64 distinction) -- this is the "machine arithmetic
treated as mathematical" assumption listed in every evidence file.
"""
import math
import z3

FK, (FIN, NAN, PINF, NINF) = z3.EnumSort("FK", ["fin", "nan", "pinf", "ninf"])
R0 = z3.RealVal(0)


class SFloat:
    __slots__ = ("k", "v", "fin")

    def __init__(self, k, v, fin=False):
        self.k = k
        self.v = v
        self.fin = fin or (z3.is_app(k) and k.eq(FIN))  # statically known finite

    def __repr__(self):
        return "SFloat(%s,%s)" % (self.k, self.v)


def F(v):
    """finite float from a python number or z3 Int/Real expr"""
    if isinstance(v, SFloat):
        return v
    if isinstance(v, bool):
        v = int(v)
    if isinstance(v, float):
        if math.isnan(v):
            return FNAN
        if math.isinf(v):
            return FPINF if v > 0 else FNINF
        return SFloat(FIN, z3.RealVal(repr(v)), True)
    if isinstance(v, int):
        return SFloat(FIN, z3.RealVal(v), True)
    if z3.is_bool(v):
        return SFloat(FIN, z3.If(v, z3.RealVal(1), R0), True)
    if z3.is_int(v):
        return SFloat(FIN, z3.ToReal(v), True)
    if z3.is_real(v):
        return SFloat(FIN, v, True)
    if z3.is_bv(v):
        return SFloat(FIN, z3.ToReal(z3.BV2Int(v, False)), True)
    raise TypeError("F(%r)" % (v,))


FNAN = SFloat(NAN, R0)
FPINF = SFloat(PINF, R0)
FNINF = SFloat(NINF, R0)


def isnan(a):
    if a.fin:
        return z3.BoolVal(False)
    return a.k == NAN


def isfin(a):
    if a.fin:
        return z3.BoolVal(True)
    return a.k == FIN


def isinf(a):
    if a.fin:
        return z3.BoolVal(False)
    return z3.Or(a.k == PINF, a.k == NINF)


def _sgn_pos(a):
    """a is non-nan: True iff a > 0 (inf included)"""
    return z3.Or(a.k == PINF, z3.And(a.k == FIN, a.v > 0))


def _sgn_neg(a):
    return z3.Or(a.k == NINF, z3.And(a.k == FIN, a.v < 0))


def _is_zero(a):
    return z3.And(a.k == FIN, a.v == 0)


def neg(a):
    if a.fin:
        return SFloat(FIN, -a.v, True)
    k = z3.If(a.k == PINF, NINF, z3.If(a.k == NINF, PINF, a.k))
    return SFloat(k, -a.v)


def add(a, b):
    if a.fin and b.fin:
        return SFloat(FIN, a.v + b.v, True)
    k = z3.If(
        z3.Or(isnan(a), isnan(b)),
        NAN,
        z3.If(
            z3.And(isfin(a), isfin(b)),
            FIN,
            z3.If(isfin(a), b.k, z3.If(isfin(b), a.k, z3.If(a.k == b.k, a.k, NAN))),
        ),
    )
    return SFloat(k, a.v + b.v)


def sub(a, b):
    return add(a, neg(b))


def mul(a, b):
    if a.fin and b.fin:
        return SFloat(FIN, a.v * b.v, True)
    pos = z3.Or(z3.And(_sgn_pos(a), _sgn_pos(b)), z3.And(_sgn_neg(a), _sgn_neg(b)))
    k = z3.If(
        z3.Or(isnan(a), isnan(b)),
        NAN,
        z3.If(
            z3.And(isfin(a), isfin(b)),
            FIN,
            z3.If(z3.Or(_is_zero(a), _is_zero(b)), NAN, z3.If(pos, PINF, NINF)),
        ),
    )
    return SFloat(k, a.v * b.v)


def div_nonzero(a, b):
    """a / b assuming the caller discharged (or modelled) the b == 0 case:
    finite b is treated as non-zero here (array semantics for 0 are in div_array)."""
    if a.fin and b.fin:
        return SFloat(FIN, a.v / b.v, True)
    posb = _sgn_pos(b)
    k = z3.If(
        z3.Or(isnan(a), isnan(b)),
        NAN,
        z3.If(
            isfin(b),
            z3.If(isfin(a), FIN, z3.If(posb, a.k, z3.If(a.k == PINF, NINF, PINF))),
            z3.If(isfin(a), FIN, NAN),
        ),
    )
    v = z3.If(z3.And(isfin(a), isfin(b)), a.v / b.v, R0)
    return SFloat(k, v)


def div_array(a, b):
    """numpy array/array (or np.float32 scalar) division: x/0 -> +-inf, 0/0 -> nan, no exception"""
    bz = _is_zero(b)
    r = div_nonzero(a, b)
    k = z3.If(
        z3.And(bz, z3.Not(isnan(a))),
        z3.If(_is_zero(a), NAN, z3.If(_sgn_pos(a), PINF, NINF)),
        r.k,
    )
    return SFloat(k, z3.If(bz, R0, r.v))


def fabs(a):
    if a.fin:
        return SFloat(FIN, z3.If(a.v >= 0, a.v, -a.v), True)
    k = z3.If(a.k == NINF, PINF, a.k)
    return SFloat(k, z3.If(a.v >= 0, a.v, -a.v))


def lt(a, b):
    if a.fin and b.fin:
        return a.v < b.v
    return z3.And(
        z3.Not(isnan(a)),
        z3.Not(isnan(b)),
        z3.Or(
            z3.And(a.k == NINF, b.k != NINF),
            z3.And(b.k == PINF, a.k != PINF),
            z3.And(isfin(a), isfin(b), a.v < b.v),
        ),
    )


def le(a, b):
    if a.fin and b.fin:
        return a.v <= b.v
    return z3.And(
        z3.Not(isnan(a)),
        z3.Not(isnan(b)),
        z3.Or(a.k == NINF, b.k == PINF, z3.And(isfin(a), isfin(b), a.v <= b.v)),
    )


def eq(a, b):
    """IEEE ==  (nan != nan)"""
    if a.fin and b.fin:
        return a.v == b.v
    return z3.And(
        z3.Not(isnan(a)),
        z3.Not(isnan(b)),
        z3.Or(z3.And(isfin(a), isfin(b), a.v == b.v), z3.And(a.k == b.k, z3.Not(isfin(a)))),
    )


def same(a, b):
    """spec identity: nan is the same as nan"""
    if a.fin and b.fin:
        return a.v == b.v
    return z3.And(a.k == b.k, z3.Implies(isfin(a), a.v == b.v))


def ite(c, a, b):
    if a.fin and b.fin:
        return SFloat(FIN, z3.If(c, a.v, b.v), True)
    return SFloat(z3.If(c, a.k, b.k), z3.If(c, a.v, b.v))


def fmin2(a, b):
    """python/numba builtin min(a, b) == b if b < a else a"""
    return ite(lt(b, a), b, a)


def fmax2(a, b):
    """python/numba builtin max(a, b) == b if b > a else a"""
    return ite(lt(a, b), b, a)


def trunc_int(a):
    """int(a) for a finite a (obligation on finiteness is the caller's)"""
    v = a.v
    return z3.If(v >= 0, z3.ToInt(v), -z3.ToInt(-v))


def floor_int(a):
    return z3.ToInt(a.v)


def ceil_int(a):
    return -z3.ToInt(-a.v)
