"""Engine smoke tests (seconds): the float model and a toy function against good and bad contracts."""
import z3
from . import fl


def prove(f):
    s = z3.Solver()
    s.add(z3.Not(f))
    return s.check() == z3.unsat


def main():
    a = fl.SFloat(z3.Const("ka", fl.FK), z3.Real("va"))
    b = fl.SFloat(z3.Const("kb", fl.FK), z3.Real("vb"))
    # nan propagates, inf - inf = nan, comparisons with nan are false
    assert prove(z3.Implies(fl.isnan(a), fl.isnan(fl.add(a, b))))
    assert prove(z3.Implies(z3.And(a.k == fl.PINF, b.k == fl.PINF), fl.isnan(fl.sub(a, b))))
    assert prove(z3.Implies(fl.isnan(a), z3.Not(fl.lt(a, b))))
    assert prove(z3.Implies(z3.And(fl.isfin(a), b.k == fl.PINF), fl.lt(a, b)))
    assert not prove(fl.le(a, a))  # fails for nan: the model must not prove it
    assert prove(z3.Implies(z3.Not(fl.isnan(a)), fl.le(a, a)))
    assert prove(fl.same(fl.fabs(fl.neg(a)), fl.fabs(a)))
