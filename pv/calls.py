"""Calls: python/numpy builtins, spec-language builtins, callee contracts, inlining, spec functions."""
import ast
import z3
from . import fl, extract
from .fl import SFloat
from .vals import (SArr, SList, SObj, SFunc, SNs, SStr, Unsupported, intern_str, fresh_int, fresh_float, fresh_name,
                   parse_type, I)
from .state import (alloc_array, array_read, array_write, havoc_cell, coerce_scalar, fresh_of_type, new_cell)
from .expr import (is_int, is_boolv, is_bv, is_float, as_bool, zb, to_int, simp_bool, band, bor, bnot, merge, val_eq,
                   arith, compare)

RETURN, RAISE, NORMAL = "return", "raise", "normal"


def zi(v):
    return z3.IntVal(v) if isinstance(v, int) else v


class CallMixin:
    # ------------------------------------------------------------ dispatch
    def e_Call(self, n, st):
        fn = self.eval(n.func, st)
        if isinstance(fn, tuple) and fn and fn[0] == "lambda":
            raise Unsupported("lambda call")
        if not isinstance(fn, SFunc):
            raise Unsupported("call of %r (line %d)" % (type(fn), n.lineno))
        name = fn.name
        # spec-language forms that must see the unevaluated argument
        if name in ("all", "any", "sum") and n.args and isinstance(n.args[0], ast.GeneratorExp):
            return self.quantified(name, n.args[0], st)
        if name == "old":
            return self.eval_old(n.args[0], st)
        if name == "implies":
            a = as_bool(self.eval(n.args[0], st))
            if a is False:
                return True
            self.guard.append(a) if not isinstance(a, bool) else None
            try:
                b = as_bool(self.eval(n.args[1], st))
            finally:
                if not isinstance(a, bool):
                    self.guard.pop()
            return bor(bnot(a), b)
        args = []
        for a in n.args:
            if isinstance(a, ast.Starred):
                v = self.eval(a.value, st)
                args += list(v.items if isinstance(v, SList) else v)
            else:
                args.append(self.eval(a, st))
        kwargs = {k.arg: self.eval(k.value, st) for k in n.keywords}
        self._cur = st
        if fn.handler and fn.handler[0] == "method":
            return self.call_method(fn.handler[1], name.split(".")[-1], args, kwargs, st, n)
        if name in self.db.specs:
            return self.call_spec(self.db.specs[name], args, st, n)
        h = getattr(self, "b_" + name.replace(".", "_"), None)
        if h is not None:
            return h(args, kwargs, st, n)
        if fn.target:
            return self.call_target(fn.target, args, kwargs, st, n)
        raise Unsupported("call %s (line %d)" % (name, n.lineno))

    def assume_lemma(self, use, st):
        """assume a proved lemma: parameters bound by uses(...) are evaluated in the current state, the others (scalars) are
        universally quantified.  The lemma itself is an obligation of the same property (verify_lemma)."""
        name, binds = use if isinstance(use, tuple) else (use, {})
        lm = self.db.lemmas.get(name)
        if lm is None:
            raise Unsupported("unknown lemma %s" % name)
        sub = st.fork()
        sub.vars = dict(st.vars)
        free = []
        from .state import fresh_of_type
        for p in lm.params:
            if p in binds:
                saved = self.spec
                self.spec = True
                try:
                    sub.vars[p] = self.eval(binds[p], st)
                finally:
                    self.spec = saved
            else:
                ty = lm.types.get(p, "int")
                if ty not in ("int", "float", "bool"):
                    raise Unsupported("lemma %s: parameter %s of type %s must be bound by uses(...)" % (name, p, ty))
                v = fresh_of_type(sub, "lm_" + p, ty, None)
                sub.vars[p] = v
                free.append(v if z3.is_expr(v) else v.v)
        pre = [zb(as_bool(self.eval_spec(cl.expr, sub))) for cl in lm.requires]
        post = [zb(as_bool(self.eval_spec(cl.expr, sub))) for cl in lm.ensures]
        body = z3.Implies(z3.And(*pre) if pre else z3.BoolVal(True), z3.And(*post))
        if free:
            pats = choose_patterns(free, body)
            body = forall_pat(free, body, pats)
        st.assume(body)

    def call_method(self, recv, meth, args, kwargs, st, n):
        h = getattr(self, "m_" + meth, None)
        if h is None:
            raise Unsupported("method .%s (line %d)" % (meth, n.lineno))
        return h(recv, args, kwargs, st, n)

    # ------------------------------------------------------------ quantifiers over generator expressions
    def quantified(self, kind, g, st):
        if not self.spec:
            return self.quantified_in_code(kind, g, st)
        # a leading generator over a concrete list/tuple is expanded into a conjunction / disjunction
        first = g.generators[0]
        if not (isinstance(first.iter, ast.Call) and isinstance(first.iter.func, ast.Name) and first.iter.func.id == "range"):
            it0 = self.eval(first.iter, st)
            items = it0.items if isinstance(it0, SList) else (list(it0.d.keys()) if type(it0).__name__ == "_Map" else it0)
            if isinstance(items, dict):
                items = list(items.keys())
            if isinstance(items, (list, tuple)) and not (items and items[0] == "range" and isinstance(items, tuple)):
                if kind == "sum" or not isinstance(first.target, ast.Name):
                    raise Unsupported("generator form (line %d)" % g.lineno)
                parts = []
                saved = st.vars.get(first.target.id, None)
                had = first.target.id in st.vars
                for x in items:
                    st.vars[first.target.id] = x
                    if first.ifs:   # filters over a concrete iterable must be decided concretely
                        keep = [as_bool(self.eval(c_, st)) for c_ in first.ifs]
                        if not all(isinstance(k_, bool) for k_ in keep):
                            raise Unsupported("symbolic filter over a concrete iterable (line %d)" % g.lineno)
                        if not all(keep):
                            continue
                    if len(g.generators) > 1:
                        sub = ast.GeneratorExp(elt=g.elt, generators=g.generators[1:])
                        ast.copy_location(sub, g)
                        parts.append(self.quantified(kind, sub, st))
                    else:
                        parts.append(as_bool(self.eval(g.elt, st)))
                if had:
                    st.vars[first.target.id] = saved
                else:
                    st.vars.pop(first.target.id, None)
                return band(*parts) if kind == "all" else bor(*parts)
        bvs, guards, bounds = [], [], []
        saved = dict(self.bound_vars)
        try:
            for comp in g.generators:
                if not isinstance(comp.target, ast.Name):
                    raise Unsupported("quantifier target")
                it = self.eval(comp.iter, st)
                if not (isinstance(it, tuple) and it and it[0] == "range"):
                    raise Unsupported("quantifier domain must be range(...) (line %d)" % g.lineno)
                v = z3.Int(fresh_name("q_" + comp.target.id))
                self.bound_vars[comp.target.id] = v
                bvs.append(v)
                if it[3] != 1:
                    raise Unsupported("quantifier with step")
                guards += [v >= zi(it[1]), v < zi(it[2])]
                bounds.append((zi(it[1]), zi(it[2])))
                for cond in comp.ifs:
                    guards.append(zb(self.eval(cond, st)))
            if kind == "sum":
                raise Unsupported("sum(...) over generator: use a recursive @spec function")
            self.guard.append(z3.And(*guards))
            try:
                body = zb(self.eval(g.elt, st))
            finally:
                self.guard.pop()
        finally:
            self.bound_vars = saved
        if kind == "all":
            # forall k in [lo, t+1): P(k)  ==  forall k in [lo, t): P(k)  and  (lo <= t -> P(t)).  Splitting off the last
            # element (the one a loop iteration has just produced) is what makes invariant-preservation goals easy.
            for gi, v in enumerate(bvs):
                if len(guards) != 2 * len(bvs):
                    break
                lo_t, hi_t = bounds[gi]
                hi_t = z3.simplify(hi_t)
                last = _minus_one(hi_t)
                if last is None:
                    continue
                others = [g for j, g in enumerate(guards) if j not in (2 * gi, 2 * gi + 1)]
                rest_bvs = [b for b in bvs if b is not v]
                inst_body = z3.substitute(body, (v, last))
                inst_guards = [z3.substitute(g, (v, last)) for g in others]
                if rest_bvs:
                    p2 = choose_patterns(rest_bvs, inst_body)
                    inst = forall_pat(rest_bvs, z3.Implies(z3.And(*inst_guards) if inst_guards else z3.BoolVal(True), inst_body), p2)
                else:
                    inst = inst_body
                guards2 = list(guards)
                guards2[2 * gi + 1] = v < last
                pats = choose_patterns(bvs, body)
                main = forall_pat(bvs, z3.Implies(z3.And(*guards2), body), pats)
                return z3.And(main, z3.Implies(lo_t <= last, inst))
            pats = choose_patterns(bvs, body)
            if self.opt("witness_marks", False):
                # the (universally true) mark in the guard: when the clause is a goal, its Skolem constants are marked, so the
                # universal hypotheses that trigger on marks are instantiated on them
                guards = list(guards) + [self.witness_mark(v) for v in bvs]
                if len(bvs) == 1:
                    pats = list(pats or []) + [self.witness_mark(bvs[0])]
            return forall_pat(bvs, z3.Implies(z3.And(*guards), body), pats)
        if self.opt("witness_marks", False) and len(bvs) == 1:
            # every existential witness carries the (universally true) mark; every single-variable universal may be instantiated
            # on a marked term -- this connects an existential hypothesis with a universal one over the same index
            return z3.Exists(bvs, z3.And(*(guards + [body, self.witness_mark(bvs[0])])))
        return z3.Exists(bvs, z3.And(*(guards + [body])))

    def witness_mark(self, t):
        if getattr(self, "_mark", None) is None:
            self._mark = z3.Function("witness!", I, z3.BoolSort())
            x = z3.Int("wm!x")
            self.axioms.append(z3.ForAll([x], self._mark(x), patterns=[self._mark(x)]))
        return self._mark(t)

    def eval_old(self, node, st):
        if self.old_state is None:
            raise Unsupported("old() outside a postcondition")
        o = self.old_state.fork()
        # bound variables / locals of the current frame that are not in the old state stay visible
        for k, v in st.vars.items():
            if k not in o.vars:
                o.vars[k] = v
        r = self.eval(node, o)
        return self.freeze(r, o)

    def freeze(self, r, o):
        if isinstance(r, SArr) and r.snap is None:
            return SArr(r.cell, r.dt, r.shape, r.fixed, r.name, snap=o.heap[r.cell])
        if isinstance(r, tuple) and not (r and isinstance(r[0], str)):
            return tuple(self.freeze(x, o) for x in r)
        return r

    # ------------------------------------------------------------ spec functions
    def call_spec(self, sp, args, st, n):
        if len(args) != len(sp.params):
            raise Unsupported("spec %s arity" % sp.name)
        if not sp.recursive:
            saved_vars, saved_b = st.vars, self.bound_vars
            st.vars = dict(st.vars)
            self.bound_vars = {k: v for k, v in self.bound_vars.items() if k not in sp.params}
            for p, a in zip(sp.params, args):
                st.vars[p] = a
            try:
                return self.eval_spec(sp.expr, st)
            finally:
                st.vars = saved_vars
                self.bound_vars = saved_b
        # recursive: uninterpreted function of the scalar arguments, one instance per tuple of non-scalar arguments
        scal, key = [], [sp.name]
        for p, a in zip(sp.params, args):
            if isinstance(a, SArr):
                h = a.snap if a.snap is not None else st.heap[a.cell]
                self._keep.append(h)  # ids are recycled once a term is freed: keep every keyed term alive
                key.append(("arr", a.dt, tuple(x.get_id() for x in (h if isinstance(h, tuple) else (h,))),
                            tuple(str(s) for s in a.shape), tuple(str(s) for s in a.fixed)))
            elif isinstance(a, str) or a is None:
                key.append(("c", a))
            else:
                scal.append((p, a))
                key.append(("s", p))
        key = tuple(key)
        if key not in self._uf_cache:
            sorts = []
            for p, a in scal:
                if is_float(a):
                    sorts += [fl.FK, z3.RealSort()]
                elif is_boolv(a):
                    sorts.append(z3.BoolSort())
                elif is_bv(a):
                    sorts.append(a.sort())
                else:
                    sorts.append(I)
            nm = fresh_name(sp.name)
            if sp.ret == "float":
                uf = (z3.Function(nm + ".k", *(sorts + [fl.FK])), z3.Function(nm + ".v", *(sorts + [z3.RealSort()])))
            else:
                rs = {"real": z3.RealSort(), "int": I, "bool": z3.BoolSort()}[sp.ret]
                uf = z3.Function(nm, *(sorts + [rs]))
            self._uf_cache[key] = uf
            fueled = sp.ret in ("int", "bool") and sp.name in (self.opt("fuel", []) or [])
            if fueled:
                # bounded unfolding (Dafny-style fuel): the recursive occurrences inside the definition are a second symbol
                # f0; f(x) == body[f0] and f(x) == f0(x) are both triggered by f(x) only, so every f-term of the problem is
                # unfolded exactly once and no matching loop is possible
                uf0 = z3.Function(nm + "0", *(sorts + [rs]))
                self._fuel0 = getattr(self, "_fuel0", {})
                self._fuel0[key] = uf0
                self._in_def = getattr(self, "_in_def", set())
                self._in_def.add(key)
            # defining axiom: forall scalars. f(scalars) == body
            bound, actual = [], []
            saved_vars, saved_b = st.vars, self.bound_vars
            st.vars = dict(st.vars)
            self.bound_vars = {k: v for k, v in self.bound_vars.items() if k not in sp.params}
            for p, a in zip(sp.params, args):
                st.vars[p] = a
            for p, a in scal:
                if is_float(a):
                    bk, bv = z3.Const(fresh_name("b_" + p + ".k"), fl.FK), z3.Real(fresh_name("b_" + p + ".v"))
                    bound += [bk, bv]
                    st.vars[p] = SFloat(bk, bv)
                elif is_boolv(a):
                    b = z3.Bool(fresh_name("b_" + p))
                    bound.append(b)
                    st.vars[p] = b
                elif is_bv(a):
                    b = z3.BitVec(fresh_name("b_" + p), a.size())
                    bound.append(b)
                    st.vars[p] = b
                else:
                    b = z3.Int(fresh_name("b_" + p))
                    bound.append(b)
                    st.vars[p] = b
            try:
                body = self.eval_spec(sp.expr, st)
            finally:
                st.vars = saved_vars
                self.bound_vars = saved_b
                if fueled:
                    self._in_def.discard(key)
            if fueled and sp.name not in (self.opt("opaque", []) or []):
                self.axioms.append(z3.ForAll(bound, uf(*bound) == uf0(*bound), patterns=[uf(*bound)]))
            if sp.ret == "float":
                body = fl.F(body) if not isinstance(body, SFloat) else body
                ax = z3.And(uf[0](*bound) == body.k, uf[1](*bound) == body.v)
                pat = [uf[0](*bound), uf[1](*bound)]
            elif sp.ret == "real":
                body = fl.F(body) if not isinstance(body, SFloat) else body
                ax = uf(*bound) == body.v
                pat = [uf(*bound)]
            elif sp.ret == "int":
                ax = uf(*bound) == zi(to_int(body))
                pat = [uf(*bound)]
            else:
                ax = uf(*bound) == zb(body)
                pat = [uf(*bound)]
            if sp.name not in (self.opt("opaque", []) or []):  # opaque: the definition is not needed (and not revealed) here
                self.axioms.append(z3.ForAll(bound, ax, patterns=pat) if bound else ax)
        uf = self._uf_cache[key]
        if key in getattr(self, "_in_def", ()):
            uf = self._fuel0[key]
        actual = []
        for p, a in scal:
            if is_float(a):
                a = fl.F(a)
                actual += [a.k, a.v]
            elif is_boolv(a):
                actual.append(zb(a))
            elif is_bv(a):
                actual.append(a)
            else:
                actual.append(zi(to_int(a)))
        if sp.ret == "float":
            return SFloat(uf[0](*actual), uf[1](*actual))
        if sp.ret == "real":
            return SFloat(fl.FIN, uf(*actual), True)
        return uf(*actual)

    def scalar_is_symbolic(self, a):
        return True

    # ------------------------------------------------------------ functions of the repository
    def resolve_reexport(self, target):
        """pandora.disparity.f where the package __init__ imports f from a sub-module"""
        for _ in range(4):
            try:
                extract.load_function(target)
                return target
            except extract.ExtractError:
                pass
            head, _, last = target.rpartition(".")
            if not head or extract.module_file(head) is None:
                return target
            imp = extract.module_imports(head).get(last)
            if not imp or imp[0] != "name":
                return target
            nxt = imp[1] + "." + imp[2]
            if nxt == target:
                return target
            target = nxt
        return target

    def call_target(self, target, args, kwargs, st, n):
        if target not in self.db.contracts and target not in self.db.assumed:
            target = self.resolve_reexport(target)
        cc = self.db.callee_contract(target)
        if cc is not None and not self.opt("inline_" + target.split(".")[-1], False):
            return self.call_with_contract(cc, target, args, kwargs, st, n)
        try:
            fi = extract.load_function(target)
        except extract.ExtractError:
            raise Unsupported("call to %s without contract (line %d)" % (target, n.lineno))
        return self.inline(fi, args, kwargs, st, n)

    def bind_params(self, params, defaults, args, kwargs, n):
        b = {}
        for p, a in zip(params, args):
            b[p] = a
        for k, v in kwargs.items():
            b[k] = v
        for p in params:
            if p not in b:
                if p in defaults:
                    b[p] = defaults[p]
                else:
                    raise Unsupported("missing argument %s (line %d)" % (p, n.lineno))
        return b

    def inline(self, fi, args, kwargs, st, n):
        if self.frame_depth > 6:
            raise Unsupported("inlining too deep at %s" % fi.qual)
        fn = fi.node
        params = [a.arg for a in fn.args.args]
        if params and params[0] in ("self", "cls") and len(args) == len(params) - 1:
            args = [st.vars.get("self")] + list(args)
        defaults = {}
        for p, d in zip(params[len(params) - len(fn.args.defaults):], fn.args.defaults):
            defaults[p] = self.eval(d, st)
        b = self.bind_params(params, defaults, args, kwargs, n)
        saved = (st.vars, self.consts, self.imports, self.modname, self.numba, self.loop_ordinals)
        sub_ord = {}
        self.loop_ordinals = sub_ord
        self.number_loops(fn)
        self.consts = extract.module_constants(fi.modname)
        self.imports = extract.module_imports(fi.modname)
        self.modname = fi.modname
        self.frame_depth += 1
        st.vars = dict(b)
        saved_c = self.c
        self.c = _NoInv(self.c)
        try:
            outs = self.exec_block(fn.body, st)
        finally:
            self.consts, self.imports, self.modname, self.numba, self.loop_ordinals = saved[1:]
            self.frame_depth -= 1
            self.c = saved_c
        rets = [(s2, pl) for (s2, oc, pl) in outs if oc in (RETURN, NORMAL)]
        raises = [(s2, oc, pl) for (s2, oc, pl) in outs if oc == RAISE]
        for s2, _, _ in raises:
            s2.vars = dict(saved[0])
        if raises:
            self._pending = (getattr(self, "_pending", None) or []) + raises
        if len(rets) == 1:
            s2, pl = rets[0]
            # continue in the caller's state object: copy the callee's final state back
            st.pc, st.heap, st.attrs, st.ghost = s2.pc, s2.heap, s2.attrs, s2.ghost
            st.vars = saved[0]
            return pl
        if not rets:
            st.vars = saved[0]
            st.assume(False)
            return None
        # several return paths: merge values under their path conditions when they share the heap, else unsupported
        base_len = len(st.pc)
        conds = [z3.And(*s2.pc[base_len:]) if len(s2.pc) > base_len else z3.BoolVal(True) for s2, _ in rets]
        same_heap = all(_heap_eq(s2.heap, rets[0][0].heap) and s2.attrs == rets[0][0].attrs for s2, _ in rets)
        if not same_heap:
            raise Unsupported("inlined %s returns on several paths with different side effects (line %d)" % (fi.qual, n.lineno))
        val = rets[-1][1]
        for cnd, (s2, pl) in list(zip(conds, rets))[-2::-1]:
            val = merge(cnd, pl, val)
        st.vars = saved[0]
        st.heap = rets[0][0].heap
        st.assume(z3.Or(*conds))
        return val

    def call_with_contract(self, cc, target, args, kwargs, st, n):
        params = list(cc.params)
        if params and params[0] in ("self", "cls") and len(args) == len(params) - 1:
            args = [st.vars.get("self")] + list(args)
        b = self.bind_params(params, {}, args, kwargs, n)
        # callee frame for evaluating its clauses
        frame = st.fork()
        frame.vars = dict(b)
        saved = (self.old_state, self.result, self.bound_vars)
        self.bound_vars = {}
        try:
            for cl in cc.requires:
                g = as_bool(self.eval_spec(cl.expr, frame))
                if not self.spec:
                    self.emit(st, "pre@call", "%s.L%d.%s" % (target.split(".")[-1], n.lineno, cl.name), g, n,
                              "precondition of %s: %s" % (target, cl.text()))
                st.assume(g)
            old = st.fork()
            old.vars = dict(b)
            # havoc what the callee may assign
            if cc.assigns:
                for pname in cc.assigns:
                    v = b.get(pname)
                    if isinstance(v, SArr):
                        if not self.frame_ok(v) and not self.spec:
                            self.emit(st, "frame", "L%d" % n.lineno, False, n, "callee %s writes %s" % (target, pname))
                        havoc_cell(st, v, pname)
            rt = cc.types.get("result")
            res = None
            pure_key = None
            if cc.options.get("pure") and not cc.assigns:
                # a deterministic function of its arguments' contents: the same arguments (same heap contents) give the same result
                pure_key = (target,) + tuple(self.content_key(b.get(p), st) for p in params)
                self._pure_cache = getattr(self, "_pure_cache", {})
                if pure_key in self._pure_cache:
                    return self._pure_cache[pure_key]
            if cc.options.get("returns"):
                # the result is (a tuple of) the listed arguments themselves; option(fresh_vars={param: {var: type}}) replaces
                # dataset variables of those arguments by unknown arrays (what the callee rebuilt)
                from .lazy import SDs, SData
                for p, vs in (cc.options.get("fresh_vars") or {}).items():
                    d = b.get(p)
                    if isinstance(d, SDs):
                        for vn, vt in vs.items():
                            a = fresh_of_type(st, "%s[%s]'" % (p, vn), vt, None)
                            if isinstance(a, SArr):
                                self.local_cells.add(a.cell)
                            d.vars[vn] = SData(a, name=vn)
                rs = [b.get(p) for p in cc.options["returns"]]
                res = tuple(rs) if len(rs) > 1 else rs[0]
            elif rt is not None:
                res = fresh_of_type(st, "res_" + target.split(".")[-1], rt, None)
                if pure_key is not None:
                    self._pure_cache[pure_key] = res
                for a in (res if isinstance(res, tuple) else (res,)):
                    if isinstance(a, SArr):
                        self.local_cells.add(a.cell)
            post = st.fork()
            post.vars = dict(b)
            if cc.options.get("returns_expr"):
                # the callee returns (a view of) one of its arguments: an expression over its parameters, in the state after the call
                saved_spec = self.spec
                self.spec = True
                try:
                    res = self.eval(ast.parse(cc.options["returns_expr"], mode="eval").body, post)
                finally:
                    self.spec = saved_spec
            self.old_state, self.result = old, res
            for cl in cc.ensures:
                st.assume(as_bool(self.eval_spec(cl.expr, post)))
            if cc.raises_iff or cc.may_raise:
                # the callee may raise: add raising outcomes (state before the call, with the raise condition)
                pend = []
                for exc, cl in cc.raises_iff:
                    r = old.fork()
                    r.vars = dict(self._cur_vars(st))
                    cond = as_bool(self.eval_spec(cl.expr, frame))
                    r.assume(cond)
                    st.assume(bnot(cond))
                    pend.append((r, RAISE, exc))
                self._pending = (getattr(self, "_pending", None) or []) + pend
            return res
        finally:
            self.old_state, self.result, self.bound_vars = saved

    def _cur_vars(self, st):
        return st.vars

    def content_key(self, v, st):
        """identity of a value's CONTENTS in state st (arrays: the heap term they currently hold)"""
        tn = type(v).__name__
        if isinstance(v, SArr):
            h = v.snap if v.snap is not None else st.heap[v.cell]
            self._keep.append(h)
            return ("arr", tuple(x.get_id() for x in (h if isinstance(h, tuple) else (h,))), tuple(str(x) for x in v.fixed))
        if tn == "SData":
            return ("da", self.content_key(v.arr, st))
        if tn == "SDs":
            return ("ds", tuple((k, self.content_key(x, st)) for k, x in sorted(v.vars.items())),
                    tuple((k, self.content_key(x, st)) for k, x in sorted(v.attrs.items())))
        if z3.is_expr(v):
            self._keep.append(v)
            return ("z", v.get_id())
        if isinstance(v, SFloat):
            self._keep += [v.k, v.v]
            return ("f", v.k.get_id(), v.v.get_id())
        if isinstance(v, (int, float, str, bool)) or v is None:
            return ("c", v)
        return ("id", id(v))

    # ------------------------------------------------------------ python builtins
    def b_range(self, args, kw, st, n, parallel=False):
        a = [to_int(x) for x in args]
        if len(a) == 1:
            return ("range", 0, a[0], 1, parallel)
        if len(a) == 2:
            return ("range", a[0], a[1], 1, parallel)
        return ("range", a[0], a[1], a[2], parallel)

    def b_prange(self, args, kw, st, n):
        return self.b_range(args, kw, st, n, parallel=True)

    def b_numba_prange(self, args, kw, st, n):
        return self.b_range(args, kw, st, n, parallel=True)

    def _minmax(self, args, st, n, ismin):
        if len(args) == 1:
            args = list(args[0].items if isinstance(args[0], SList) else args[0])
        r = args[0]
        for x in args[1:]:
            if is_float(r) or is_float(x):
                a_, b_ = (fl.F(to_int(r)) if not is_float(r) else fl.F(r)), (fl.F(to_int(x)) if not is_float(x) else fl.F(x))
                r = fl.fmin2(a_, b_) if ismin else fl.fmax2(a_, b_)
            else:
                a_, b_ = to_int(r), to_int(x)
                if isinstance(a_, int) and isinstance(b_, int):
                    r = min(a_, b_) if ismin else max(a_, b_)
                else:
                    r = z3.If(zi(b_) < zi(a_), zi(b_), zi(a_)) if ismin else z3.If(zi(b_) > zi(a_), zi(b_), zi(a_))
        return r

    def b_min(self, args, kw, st, n):
        return self._minmax(args, st, n, True)

    def b_max(self, args, kw, st, n):
        return self._minmax(args, st, n, False)

    def b_abs(self, args, kw, st, n):
        v = args[0]
        if is_float(v):
            return fl.fabs(fl.F(v))
        v = to_int(v)
        return abs(v) if isinstance(v, int) else z3.If(v >= 0, v, -v)

    b_numpy_abs = b_abs
    b_numpy_fabs = b_abs

    def b_int(self, args, kw, st, n):
        v = args[0]
        if is_float(v):
            v = fl.F(v)
            self.require_finite(v, n)
            return fl.trunc_int(v)
        return to_int(v)

    b_trunc = b_int

    def b_float(self, args, kw, st, n):
        v = args[0]
        if isinstance(v, str):
            return fl.F(float(v))
        return fl.F(v) if is_float(v) else fl.F(to_int(v))

    b_numpy_float32 = b_float
    b_numpy_float64 = b_float

    def b_bool(self, args, kw, st, n):
        return as_bool(args[0])

    def b_len(self, args, kw, st, n):
        v = args[0]
        if isinstance(v, SArr):
            return v.view_shape()[0]
        if isinstance(v, SList):
            return len(v.items)
        if isinstance(v, tuple) and v and isinstance(v[0], str):
            if v[0] == "range":
                lo, hi, step = zi(v[1]), zi(v[2]), v[3]
                if not isinstance(step, int) or step <= 0:
                    raise Unsupported("len(range) with a non-positive / symbolic step")
                return z3.simplify(z3.If(hi <= lo, z3.IntVal(0), (hi - lo + (step - 1)) / step))
            raise Unsupported("len of a %s value" % v[0])   # an engine-internal tagged tuple, not a python tuple
        if isinstance(v, (tuple, list, dict, str)):
            return len(v)
        raise Unsupported("len of %r" % type(v))

    def b_isnan(self, args, kw, st, n):
        v = args[0]
        if not is_float(v):
            return False
        return simp_bool(fl.isnan(fl.F(v)))

    b_numpy_isnan = b_isnan
    b_math_isnan = b_isnan

    def b_isfinite(self, args, kw, st, n):
        v = args[0]
        if not is_float(v):
            return True
        return simp_bool(fl.isfin(fl.F(v)))

    b_numpy_isfinite = b_isfinite

    def b_isinf(self, args, kw, st, n):
        v = args[0]
        if not is_float(v):
            return False
        return simp_bool(fl.isinf(fl.F(v)))

    b_numpy_isinf = b_isinf

    def b_floor(self, args, kw, st, n):
        v = args[0]
        if is_float(v):
            v = fl.F(v)
            self.require_finite(v, n)
            return fl.floor_int(v)
        return to_int(v)

    b_math_floor = b_floor

    def b_ceil(self, args, kw, st, n):
        v = args[0]
        if is_float(v):
            v = fl.F(v)
            self.require_finite(v, n)
            return fl.ceil_int(v)
        return to_int(v)

    b_math_ceil = b_ceil

    def b_eq(self, args, kw, st, n):
        return val_eq(args[0], args[1], True)

    def b_iff(self, args, kw, st, n):
        return zb(as_bool(args[0])) == zb(as_bool(args[1]))

    def b_bit(self, args, kw, st, n):
        """bit(x, k): is bit k of the bit-vector/int x set"""
        x, k = args
        if is_bv(x):
            return z3.Extract(k, k, x) == 1
        return (zi(to_int(x)) / (2**k)) % 2 == 1

    def b_sum32(self, args, kw, st, n):
        """number of set bits of a 32-bit vector, as a 32-bit vector (specification of popcount)"""
        x = args[0]
        w = x.size()
        return z3.Sum(*[z3.ZeroExt(w - 1, z3.Extract(i, i, x)) for i in range(w)])

    def b_tok(self, args, kw, st, n):
        return args[0]

    def quantified_in_code(self, kind, g, st):
        """all(...) / any(...) over a generator in CODE: a concrete iterable is expanded; over the elements of a 1-D array only a
        body that the element's TYPE decides (isinstance tests) is supported: all -> body or the array is empty, any -> body and
        the array is not empty"""
        if kind == "sum" or len(g.generators) != 1 or g.generators[0].ifs or not isinstance(g.generators[0].target, ast.Name):
            raise Unsupported("all/any/sum over a generator in code (line %d)" % g.lineno)
        gen = g.generators[0]
        it = self.eval(gen.iter, st)
        name = gen.target.id
        saved, had = st.vars.get(name), name in st.vars
        try:
            if type(it).__name__ in ("SArr", "LArr"):
                from .lazy import shape_of, elem
                shp = shape_of(it)
                if len(shp) != 1:
                    raise Unsupported("generator over a %d-D array in code (line %d)" % (len(shp), g.lineno))
                st.vars[name] = elem(it, [z3.Int(fresh_name("gi"))], st)
                body = as_bool(self.eval(g.elt, st))
                if not isinstance(body, bool):
                    raise Unsupported("generator over array elements with a value-dependent body in code (line %d)" % g.lineno)
                nz = to_int(shp[0])
                if kind == "all":
                    return True if body else simp_bool(zi(nz) == 0)
                return simp_bool(zi(nz) > 0) if body else False
            items = it.items if isinstance(it, SList) else (list(it.d.keys()) if type(it).__name__ == "_Map" else it)
            if not isinstance(items, (list, tuple)) or (items and isinstance(items, tuple) and items[0] == "range"):
                raise Unsupported("all/any over %r in code (line %d)" % (type(it), g.lineno))
            parts = []
            for x in items:
                st.vars[name] = x
                parts.append(as_bool(self.eval(g.elt, st)))
            return band(*parts) if kind == "all" else bor(*parts)
        finally:
            if had:
                st.vars[name] = saved
            else:
                st.vars.pop(name, None)

    def m_items(self, recv, args, kw, st, n):
        d = recv.d if type(recv).__name__ == "_Map" else recv
        if not isinstance(d, dict):
            raise Unsupported(".items() of %r (line %d)" % (type(recv), n.lineno))
        return SList([(k_, v_) for k_, v_ in d.items()])

    def m_keys(self, recv, args, kw, st, n):
        d = recv.d if type(recv).__name__ == "_Map" else recv
        if not isinstance(d, dict):
            raise Unsupported(".keys() of %r (line %d)" % (type(recv), n.lineno))
        return SList(list(d.keys()))

    def m_values(self, recv, args, kw, st, n):
        d = recv.d if type(recv).__name__ == "_Map" else recv
        if not isinstance(d, dict):
            raise Unsupported(".values() of %r (line %d)" % (type(recv), n.lineno))
        return SList(list(d.values()))

    def m_get(self, recv, args, kw, st, n):
        d = recv.d if type(recv).__name__ == "_Map" else recv
        if not isinstance(d, dict) or not args or not isinstance(args[0], (str, int)):
            raise Unsupported(".get() form (line %d)" % n.lineno)
        return d.get(args[0], args[1] if len(args) > 1 else None)

    def b_astuple(self, args, kw, st, n):
        """dataclasses.astuple of a Margins record"""
        v = args[0]
        if isinstance(v, tuple) and v and v[0] == "Margins":
            return tuple(v[1:])
        raise Unsupported("astuple of %r (line %d)" % (type(v), n.lineno))

    b_dataclasses_astuple = b_astuple

    def b_map(self, args, kw, st, n):
        """map(f, it1, it2, ...) over concrete-length iterables, f a builtin the model knows (max, min, astuple, operator.add)"""
        fn, its = args[0], args[1:]
        lists = []
        for it in its:
            items = it.items if isinstance(it, SList) else it
            if not isinstance(items, (list, tuple)) or (items and isinstance(items[0], str) and items[0] == "Margins"):
                raise Unsupported("map over %r (line %d)" % (type(it), n.lineno))
            lists.append(list(items))
        nm = (getattr(fn, "name", None) or getattr(fn, "target", None) or "").split(".")[-1]
        h = {"max": self.b_max, "min": self.b_min, "astuple": self.b_astuple}.get(nm)
        out = []
        for tup in zip(*lists):
            if nm == "add":
                out.append(arith("+", tup[0], tup[1], self, n))
            elif h is not None:
                out.append(h(list(tup), {}, st, n))
            else:
                raise Unsupported("map of %r (line %d)" % (nm, n.lineno))
        return SList(out)

    def b_set(self, args, kw, st, n):
        if not args:
            return set()
        v = args[0]
        items = list(v.d.keys()) if type(v).__name__ == "_Map" else (v.items if isinstance(v, SList) else v)
        if isinstance(items, dict):
            items = list(items.keys())
        if not isinstance(items, (list, tuple, set, frozenset)) or not all(isinstance(x_, (str, int)) for x_ in items):
            raise Unsupported("set(...) of %r (line %d)" % (type(v), n.lineno))
        return set(items)

    def b_filter(self, args, kw, st, n):
        """filter(lambda x: <concrete test>, <concrete iterable or dataset>) -> list"""
        fn, it = args
        if type(it).__name__ == "SDs":
            items = list(it.vars.keys())          # iterating a Dataset yields its data variable names
        elif type(it).__name__ == "_Map":
            items = list(it.d.keys())
        else:
            items = it.items if isinstance(it, SList) else it
        if not (isinstance(fn, tuple) and fn and fn[0] == "lambda") or not isinstance(items, (list, tuple)):
            raise Unsupported("filter form (line %d)" % n.lineno)
        lam = fn[1]
        out = []
        for x in items:
            env = st.fork()
            env.vars = dict(fn[2])
            env.vars[lam.args.args[0].arg] = x
            keep = as_bool(self.eval(lam.body, env))
            if not isinstance(keep, bool):
                raise Unsupported("filter with a symbolic test (line %d)" % n.lineno)
            if keep:
                out.append(x)
        return SList(out)

    def b_isinstance(self, args, kw, st, n):
        """isinstance(v, T) for values whose python type the model knows (lists, strings, None, ints, floats, dicts)"""
        v, t = args
        names = []
        for x in (t if isinstance(t, (tuple, list)) else t.items if isinstance(t, SList) else [t]):
            nm = getattr(x, "name", None) or getattr(x, "target", None)
            if not isinstance(nm, str):
                raise Unsupported("isinstance against %r (line %d)" % (x, n.lineno))
            names.append(nm.split(".")[-1])
        if isinstance(v, SList):
            ty = "list"
        elif isinstance(v, (str, SStr)):
            ty = "str"
        elif v is None:
            ty = "NoneType"
        elif isinstance(v, bool) or (z3.is_expr(v) and z3.is_bool(v)):
            ty = "bool"
        elif isinstance(v, int) or (z3.is_expr(v) and z3.is_int(v)):
            ty = "int"
        elif isinstance(v, (float, SFloat)):
            ty = "float"
        elif isinstance(v, dict):
            ty = "dict"
        elif isinstance(v, tuple) and not (v and isinstance(v[0], str)):
            ty = "tuple"
        else:
            raise Unsupported("isinstance of %r (line %d)" % (type(v), n.lineno))
        return ty in names or (ty == "bool" and "int" in names) or (ty == "dict" and "Mapping" in names)

    def b_literal_eval(self, args, kw, st, n):
        raise Unsupported("literal_eval")

    def b_tuple(self, args, kw, st, n):
        v = args[0]
        return tuple(v.items if isinstance(v, SList) else v)

    def b_list(self, args, kw, st, n):
        if not args:
            return SList([])
        v = args[0]
        if isinstance(v, dict):
            return SList(list(v.keys()))
        return SList(list(v.items if isinstance(v, SList) else v))

    def b_enumerate(self, args, kw, st, n):
        v = args[0]
        items = v.items if isinstance(v, SList) else v
        return SList([(i, x) for i, x in enumerate(items)])

    def b_zip(self, args, kw, st, n):
        ls = [a.items if isinstance(a, SList) else a for a in args]
        return SList([tuple(x) for x in zip(*ls)])

    def b_Margins(self, args, kw, st, n):
        """pandora.margins.Margins(left, up, right, down): a record (its __post_init__ refuses negative values)"""
        vals = list(args) + [kw[k] for k in ("left", "up", "right", "down")[len(args):] if k in kw]
        if not self.spec:
            for v in vals:
                g = simp_bool(zi(to_int(v)) >= 0)
                if g is not True:
                    self.emit(st, "pre@call", "Margins.L%d" % n.lineno, g, n, "Margins values are non-negative (else ValueError)")
                    st.assume(g)
        return ("Margins",) + tuple(vals)

    def b_Window(self, args, kw, st, n):
        """rasterio.windows.Window(col_off, row_off, width, height): a plain record"""
        return ("Window",) + tuple(args)

    def b_rasterio_windows_Window(self, args, kw, st, n):
        return self.b_Window(args, kw, st, n)

    def b_repr(self, args, kw, st, n):
        if isinstance(args[0], (str, int)):
            return repr(args[0])
        raise Unsupported("repr of symbolic value")

    def m_split(self, recv, args, kw, st, n):
        if isinstance(recv, str) and all(isinstance(a, str) for a in args):
            return SList(recv.split(*args))
        raise Unsupported("split on a symbolic string (line %d)" % n.lineno)

    def b_str(self, args, kw, st, n):
        if isinstance(args[0], (str, int)):
            return str(args[0])
        raise Unsupported("str() of symbolic")


class _NoInv:
    """contract view used while inlining a callee: no invariants/unroll of the caller apply"""
    def __init__(self, c):
        self._c = c
        self.invariants = {}
        self.afters = {}
        self.unroll = {}
        self.options = c.options if c is not None else {}
        self.assigns = c.assigns if c is not None else None


def _heap_eq(h1, h2):
    if h1.keys() != h2.keys():
        return False
    for k in h1:
        a, b = h1[k], h2[k]
        if isinstance(a, tuple):
            if not (a[0].eq(b[0]) and a[1].eq(b[1])):
                return False
        elif not a.eq(b):
            return False
    return True


_ARITH = (z3.Z3_OP_ADD, z3.Z3_OP_SUB, z3.Z3_OP_MUL, z3.Z3_OP_UMINUS, z3.Z3_OP_IDIV, z3.Z3_OP_DIV, z3.Z3_OP_MOD,
          z3.Z3_OP_ITE, z3.Z3_OP_TO_REAL, z3.Z3_OP_TO_INT)


def choose_patterns(bvs, body):
    """explicit e-matching triggers for a universally quantified clause: array reads / function applications that
    mention the bound variables without interpreted arithmetic in between (z3's automatic choice misses them on the
    larger invariants)"""
    ids = {b.get_id(): i for i, b in enumerate(bvs)}
    cands = []
    seen = set()

    memo = {}

    def walk(t):
        tid = t.get_id()
        if tid not in memo:
            memo[tid] = walk_(t)
        return memo[tid]

    def walk_(t):
        """-> (set of bound var indexes in t, True if t is 'clean': bound vars reachable without arithmetic)"""
        if t.get_id() in ids:
            return {ids[t.get_id()]}, True
        if z3.is_quantifier(t):
            return set(), False
        if not z3.is_app(t):
            return set(), True
        vs, clean = set(), True
        for ch in t.children():
            v2, c2 = walk(ch)
            vs |= v2
            if v2 and not c2:
                clean = False
        k = t.decl().kind()
        if vs and k in _ARITH:
            clean = False
        if vs and clean and k in (z3.Z3_OP_SELECT, z3.Z3_OP_UNINTERPRETED) and t.num_args() > 0 and t.get_id() not in seen \
                and not _forbidden_in_pattern(t):
            seen.add(t.get_id())
            cands.append((t, frozenset(vs)))
        return vs, clean
    walk(body)
    allv = frozenset(range(len(bvs)))
    full = [t for t, vs in cands if vs == allv]
    if full:
        full.sort(key=lambda t: len(str(t)))
        return full[:4]
    # greedy multi-pattern
    chosen, covered = [], set()
    for t, vs in sorted(cands, key=lambda c: (-len(c[1]), len(str(c[0])))):
        if not vs <= covered:
            chosen.append(t)
            covered |= vs
        if covered == allv:
            return [z3.MultiPattern(*chosen)] if len(chosen) > 1 else chosen
    return None


_FORBID = (z3.Z3_OP_ITE, z3.Z3_OP_AND, z3.Z3_OP_OR, z3.Z3_OP_NOT, z3.Z3_OP_IMPLIES, z3.Z3_OP_EQ, z3.Z3_OP_LE, z3.Z3_OP_LT,
           z3.Z3_OP_GE, z3.Z3_OP_GT, z3.Z3_OP_DISTINCT, z3.Z3_OP_XOR)
_forbid_cache = {}   # ast id -> (term kept alive, verdict): ids are recycled by z3 once a term is freed


def _forbidden_in_pattern(t):
    k = t.get_id()
    if k in _forbid_cache and _forbid_cache[k][0].eq(t):
        return _forbid_cache[k][1]
    r = False
    if z3.is_quantifier(t):
        r = True
    elif z3.is_app(t):
        if t.decl().kind() in _FORBID:
            r = True
        else:
            r = any(_forbidden_in_pattern(c) for c in t.children())
    _forbid_cache[k] = (t, r)
    return r


def forall_pat(bvs, body, pats):
    if pats:
        try:
            return z3.ForAll(bvs, body, patterns=pats)
        except z3.Z3Exception:
            pass
    return z3.ForAll(bvs, body)


def _minus_one(t):
    """if t is syntactically  x + 1  return x, else None"""
    if z3.is_app(t) and t.decl().kind() == z3.Z3_OP_ADD and t.num_args() >= 2:
        args = list(t.children())
        for i, a in enumerate(args):
            if z3.is_int_value(a) and a.as_long() == 1:
                rest = args[:i] + args[i + 1:]
                return rest[0] if len(rest) == 1 else z3.Sum(*rest)
    return None
