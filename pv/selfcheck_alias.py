"""Soundness smoke test of the may-alias analysis (pv/alias.py) on synthetic functions: every `bad_*` function writes into its
parameter `a` (through a view, an alias, an in-place method, a callee, a dataset variable ...) and MUST be flagged; every
`ok_*` function only writes into copies and MUST NOT be flagged.  Runs in a temporary tree (PANDORA_REPO), in a subprocess."""
import os
import subprocess
import sys
import tempfile

CASES = '''
import copy
import numpy as np
import xarray as xr


def helper_inplace(x):
    x[0] = 1


def helper_pure(x):
    y = x * 2
    y[0] = 1
    return y


def bad_direct(a):
    a[0, 0] = 1


def bad_view_slice(a):
    v = a[1:, :]
    v[0, 0] = 1


def bad_row_view(a):
    for r in range(3):
        row = a[r, :]
        row[np.isnan(row)] = 0


def bad_aug_name(a):
    b = a
    b += 1


def bad_reshape(a):
    b = a.reshape(-1)
    b[0] = 1


def bad_asarray(a):
    b = np.asarray(a).T
    b[0] = 2


def bad_callee(a):
    helper_inplace(a[0])


def bad_out_kw(a):
    np.add(a, 1, out=a)


def bad_copyto(a):
    np.copyto(a, 0)


def bad_fill(a):
    a[0].fill(3)


def bad_branch(a, c):
    b = a if c else np.zeros((2, 2))
    b[0, 0] = 1


def bad_loop_carried(a):
    b = np.zeros((3, 3))
    for i in range(4):
        b[0, 0] = 1
        b = a


def bad_tuple(a):
    t = (a, 1)
    x, _ = t
    x[0] = 0


def bad_list_elem(a):
    lst = [np.zeros(3)]
    lst.append(a)
    for x in lst:
        x[0] = 0


def bad_split(a):
    for chunk in np.array_split(a, 2, axis=0):
        chunk[0] = 1


def bad_ds_var(d):
    d["im"].data[0, 0] = 1


def bad_ds_values(d):
    v = d["im"].values
    v[v > 2] = 0


def bad_ds_shallow_copy(d):
    e = d.copy()
    e["im"].data[0, 0] = 1


def bad_ds_new_dataset(d):
    e = xr.Dataset({"x": (["row", "col"], d["im"].data)})
    e["x"].data[0, 0] = 5


def bad_ds_sel(d):
    s = d["im"].sel(band="r")
    s.data[0] = 1


def bad_ds_aug(d):
    d["msk"] += 1


def bad_da_shallow(d):
    m = d["im"].copy(deep=False)
    m.data[0, 0] = 1


def ok_fancy(a, idx):
    sel = a[0, np.where(a[0] > 1)[0]]
    sel[0] = 1


def ok_mask_copy(a):
    b = a[a > 0]
    b[0] = 1


def ok_copy(a):
    b = a.copy()
    b[0, 0] = 1
    c = np.copy(a)
    c += 1
    d = copy.deepcopy(a)
    d[:] = 0


def ok_arith(a):
    b = a * 2
    b += 1
    b[0] = 1


def ok_astype(a):
    b = a.astype(np.float32)
    b[0] = 1


def ok_callee(a):
    r = helper_pure(a)
    r[0] = 5


def ok_scalar_aug(a):
    n = a[0, 0]
    n += 1
    m = a.shape[0]
    m -= 1


def ok_rebind(a):
    b = a
    b = np.zeros((2, 2))
    b[0, 0] = 1


def ok_ds_deep(d):
    e = d.copy(deep=True)
    e["im"].data[0, 0] = 1
    f = copy.deepcopy(d)
    f["im"].data[0, 0] = 1
    g = d["im"].copy(deep=True).data
    g[0, 0] = 2


def ok_ds_where(d):
    w = np.where(d["im"].data > 1, 0, d["im"].data)
    w[0, 0] = 1
    z = d["im"].data[:, [0, 1]]
    z[0] = 0


def ok_new_local_ds(d):
    e = xr.Dataset({"x": (["row", "col"], np.zeros((2, 2)))})
    e["x"].data[0, 0] = 5
    e["y"] = xr.DataArray(np.ones((2, 2)))
    e.attrs["k"] = 1
'''

DRIVER = '''
import ast, sys
sys.path.insert(0, %(here)r)
from pv import alias, extract

class CC:
    def __init__(self, types):
        self.types, self.options = types, {}

src = open(extract.module_file("pandora.aliascases")).read()
fails = []
n = 0
for node in ast.parse(src).body:
    if not isinstance(node, ast.FunctionDef) or not node.name.startswith(("bad_", "ok_")):
        continue
    n += 1
    params = [a.arg for a in node.args.args]
    types = {p: ("ds" if p == "d" else "f64[:,:]" if p == "a" else "int") for p in params}
    an, _, _, _ = alias.analyse(CC(types), "pandora.aliascases." + node.name)
    hit = [e for e in an.effects if not alias.is_fresh(e.buf)]
    if node.name.startswith("bad_") and not hit:
        fails.append("UNSOUND: %%s not flagged" %% node.name)
    if node.name.startswith("ok_") and hit:
        fails.append("IMPRECISE: %%s flagged: %%r" %% (node.name, hit[:2]))
print("alias selfcheck: %%d cases, %%d failures" %% (n, len(fails)))
for f in fails:
    print(f)
sys.exit(1 if fails or n < 30 else 0)
'''


def main():
    here = os.path.dirname(os.path.dirname(os.path.abspath(__file__)))
    with tempfile.TemporaryDirectory() as td:
        os.makedirs(os.path.join(td, "pandora"))
        open(os.path.join(td, "pandora", "__init__.py"), "w").write("")
        open(os.path.join(td, "pandora", "aliascases.py"), "w").write(CASES)
        drv = os.path.join(td, "driver.py")
        open(drv, "w").write(DRIVER % {"here": here})
        p = subprocess.run([sys.executable, drv], env=dict(os.environ, PANDORA_REPO=td), capture_output=True, text=True)
        sys.stdout.write(p.stdout)
        if p.returncode != 0:
            sys.stderr.write(p.stderr[-3000:])
            raise AssertionError("alias analysis selfcheck failed")


if __name__ == "__main__":
    main()
