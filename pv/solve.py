"""Discharge obligations: z3 (python API, forked workers, one obligation per task), cvc5 on z3's unknowns."""
import multiprocessing as mp
import os
import subprocess
import tempfile
import time
import z3
from . import fl
from .fl import SFloat
from .vals import SArr, SList, SStr, SObj, interned_strings, sel

import sys
sys.setrecursionlimit(200000)
_OBS = []
_CFG = {}


def _val_int(m, e):
    v = m.eval(e if z3.is_expr(e) else z3.IntVal(e), model_completion=True)
    try:
        return v.as_long()
    except Exception:
        return None


def _val_float(m, f):
    k = str(m.eval(f.k, model_completion=True))
    if k == "nan":
        return "nan"
    if k == "pinf":
        return "inf"
    if k == "ninf":
        return "-inf"
    v = m.eval(f.v, model_completion=True)
    try:
        fr = v.as_fraction()
        return float(fr)
    except Exception:
        try:
            return float(v.approx(12).as_fraction())
        except Exception:
            return None


def _val_scalar(m, v):
    if isinstance(v, SFloat):
        return _val_float(m, v)
    if isinstance(v, (bool, int, str)) or v is None:
        return v
    if isinstance(v, SStr):
        t = _val_int(m, v.tok)
        inv = {b: a for a, b in interned_strings().items()}
        return inv.get(t, "<str#%s>" % t)
    if z3.is_expr(v):
        r = m.eval(v, model_completion=True)
        if z3.is_bool(v):
            return z3.is_true(r)
        try:
            return r.as_long()
        except Exception:
            pass
        try:
            return float(r.as_fraction())
        except Exception:
            return str(r)
    return repr(v)


MAX_CELLS = 4096


def extract_witness(m, inputs, entry_heap):
    out = {}
    for name, t, v in inputs:
        k = t[0]
        if k == "arr":
            shape = [_val_int(m, s) for s in v.shape]
            if any(s is None for s in shape):
                out[name] = {"error": "shape"}
                continue
            n = 1
            for s in shape:
                n *= max(s, 0)
            rec = {"dtype": t[3], "shape": shape}
            if n > MAX_CELLS:
                rec["error"] = "too large"
                out[name] = rec
                continue
            h = entry_heap[v.cell]
            import itertools
            cells = []
            for idx in itertools.product(*[range(s) for s in shape]):
                iz = [z3.IntVal(i) for i in idx]
                if v.dt == "f":
                    cells.append(_val_float(m, SFloat(sel(h[0], iz), sel(h[1], iz))))
                else:
                    cells.append(_val_scalar(m, sel(h, iz)))
            rec["data"] = cells
            out[name] = rec
        elif k == "flist":
            out[name] = [_val_float(m, x) for x in v.items]
        elif k == "tuple":
            out[name] = [_val_scalar(m, x) for x in v]
        elif k in ("func", "obj", "opaque"):
            out[name] = {"kind": k}
        elif k == "objattrs":
            out[name] = {"@attrs": {an: _val_scalar(m, av) for an, av in v.attrs.items() if an != "__dict__"}}
        elif k == "const":
            out[name] = v
        elif k == "dict":
            def conv(x):
                if isinstance(x, dict):
                    return {kk: conv(vv) for kk, vv in x.items()}
                if isinstance(x, (tuple, list)):
                    return [conv(y) for y in x]
                return _val_scalar(m, x)
            out[name] = conv(v)
        elif k == "ds":
            out[name] = {"error": "dataset witness not extracted (bounded contract evaluation supplies concrete inputs)"}
        else:
            out[name] = _val_scalar(m, v)
    return out


def _has_quant(e):
    seen = set()
    stack = [e]
    while stack:
        x = stack.pop()
        if x.get_id() in seen:
            continue
        seen.add(x.get_id())
        if z3.is_quantifier(x):
            return True
        stack.extend(x.children())
    return False


def _solve_one(i):
    ob = _OBS[i]
    timeout_ms = min(int(_CFG.get("timeout_ms", 20000) * (getattr(ob, "budget", 1) or 1)), max(120000, int(_CFG.get("timeout_ms", 20000))))
    t0 = time.time()
    if getattr(ob, "forced", None):   # verdict of an abstract interpretation that could not decide (possible, not definite)
        return (i, ob.forced, 0.0, "alias-ai", {"unsat": "no effect outside the frame in the may-alias abstraction",
                                                "sat": "a definite in-place write outside the frame",
                                                "unknown": "possible effect through an unmodelled call or an unknown value"}[ob.forced], None)
    if _CFG.get("pass2") and not ob.expect_sat:
        # second pass (obligations the first schedule left undecided, typically under machine load): long per-seed attempts, then cvc5
        s = z3.Solver()
        for h in ob.formula():
            s.add(h)
        # cvc5 first: several obligations are out of z3's reach with every seed and take cvc5 a second or two of CPU -- its time
        # limit is WALL time, so under load it needs a generous one
        r2, d2 = run_cvc5(s.to_smt2(), 60)
        if r2 == "unsat":
            return (i, "unsat", time.time() - t0, "cvc5", "second pass", None)
        notes = ["cvc5(60s): %s %s" % (r2, d2)]
        for seed in (42, 2, 3, 0):
            s.set("random_seed", seed)
            s.set("timeout", 15000)
            try:
                r = s.check()
            except z3.Z3Exception:
                r = z3.unknown
            if r != z3.unknown:
                return (i, str(r), time.time() - t0, "z3", "second pass, seed %d" % seed, None)
        r2, d2 = run_cvc5(s.to_smt2(), 150)
        if r2 == "unsat":
            return (i, "unsat", time.time() - t0, "cvc5", "second pass (second attempt)", None)
        notes.append("cvc5(150s): %s %s" % (r2, d2))
        return (i, "unknown", time.time() - t0, "z3", "timeout in both passes; " + "; ".join(notes), None)
    s = z3.Solver()
    first = min(timeout_ms, 3000) if (ob.expect_sat or _CFG.get("cvc5", True)) else timeout_ms
    s.set("timeout", first)
    seen_h = set()
    for h in ob.formula():
        if h.get_id() not in seen_h:
            seen_h.add(h.get_id())
            s.add(h)
    try:
        r = s.check()
    except z3.Z3Exception as e:
        return (i, "error", time.time() - t0, "z3", str(e), None)
    if r == z3.unknown and not ob.expect_sat and _CFG.get("cvc5", True):
        # an early, short cvc5 attempt: it decides many of z3's unknowns in well under a second
        r2, d2 = run_cvc5(s.to_smt2(), 12)
        if r2 == "unsat":
            return (i, "unsat", time.time() - t0, "cvc5", d2, None)
    if r == z3.unknown and not ob.expect_sat and _CFG.get("cvc5", True):
        # schedule: z3 3 s -> z3 with two other random seeds (3 s each; quantifier instantiation is heuristic and a
        # different seed often succeeds at once) -> cvc5 (full budget) -> z3 (full budget)
        # several verdicts depend on the random seed only (quantifier instantiation order): first a quick sweep, then -- for
        # budgeted obligations and in the second pass -- a sweep with longer per-seed time, so that a loaded machine does not
        # turn a 2-second proof into an 'unknown'
        per_seed = max(3000, min(timeout_ms // 6, 20000))
        sweeps = [((1, 2, 3, 7, 42), 3000)]
        if per_seed > 3000:
            sweeps.append(((42, 2, 3, 5, 11, 13, 17, 19), per_seed))
        for seeds, tmo in sweeps:
            s.set("timeout", tmo)
            for seed in seeds:
                s.set("random_seed", seed)
                try:
                    r = s.check()
                except z3.Z3Exception:
                    r = z3.unknown
                if r != z3.unknown:
                    break
            if r != z3.unknown:
                break
    if r == z3.unknown and not ob.expect_sat and _CFG.get("cvc5", True) and timeout_ms > 12000:
        # a medium z3 attempt before the (long) cvc5 one: many queries need 5-10 s of z3 and nothing cvc5 can do
        s.set("random_seed", 0)
        s.set("timeout", 12000)
        try:
            r = s.check()
        except z3.Z3Exception:
            r = z3.unknown
    if r == z3.unknown and not ob.expect_sat and _CFG.get("cvc5", True):
        r2, d2 = run_cvc5(s.to_smt2(), max(5, timeout_ms // 1000))
        if r2 == "unsat":
            return (i, "unsat", time.time() - t0, "cvc5", d2, None)
        s.set("timeout", timeout_ms)
        try:
            r = s.check()
        except z3.Z3Exception as e:
            return (i, "error", time.time() - t0, "z3", str(e), None)
    res = str(r)
    backend = "z3"
    if ob.expect_sat and r == z3.unknown:
        # satisfiability with quantified hypotheses is out of reach: retry on the quantifier-free part only
        s3 = z3.Solver()
        s3.set("timeout", timeout_ms)
        for h in ob.formula():
            if not _has_quant(h):
                s3.add(h)
        r3 = s3.check()
        if r3 == z3.sat:
            return (i, "sat", time.time() - t0, "z3(ground part)", "quantified hypotheses dropped for the reachability check", None)
        if r3 == z3.unsat:
            return (i, "unsat", time.time() - t0, "z3", "ground part unsatisfiable", None)
    wit = None
    detail = ""
    if r == z3.sat and not ob.expect_sat:
        # try for a small witness first
        m = s.model()
        shp = []
        for name, t, v in ob.inputs:
            if t[0] == "arr":
                shp += list(v.shape)
        for bound in (3, 5, 8, 16):
            s2 = z3.Solver()
            s2.set("timeout", min(timeout_ms, 10000))
            for h in ob.formula():
                s2.add(h)
            for d in shp:
                s2.add(d <= bound)
            if s2.check() == z3.sat:
                m = s2.model()
                break
        try:
            wit = extract_witness(m, ob.inputs, _CFG["entry_heaps"].get(id(ob.inputs), {}))
        except Exception as e:  # witness extraction must never turn into a verdict
            wit = {"error": "witness extraction failed: %r" % (e,)}
        detail = ""
    elif r == z3.unknown:
        detail = s.reason_unknown()
        # candidate counterexample from the quantifier-free part (may be spurious: it is only ever used as an input
        # to replay on the real code, never as a verdict)
        try:
            s4 = z3.Solver()
            s4.set("timeout", 3000)
            for h in ob.formula():
                if not _has_quant(h):
                    s4.add(h)
            shp = []
            for name, t, v in ob.inputs:
                if t[0] == "arr":
                    shp += list(v.shape)
            for d in shp:
                s4.add(d <= 6)
            if s4.check() == z3.sat:
                wit = extract_witness(s4.model(), ob.inputs, _CFG["entry_heaps"].get(id(ob.inputs), {}))
                detail += "; candidate input from the ground part attached"
        except Exception:
            wit = None
    return (i, res, time.time() - t0, backend, detail, wit)


def _parse_sexprs(text):
    """minimal s-expression reader: nested python lists of atom strings"""
    out, stack, i, n = [], [], 0, len(text)
    cur = out
    while i < n:
        c = text[i]
        if c == ";":
            while i < n and text[i] != "\n":
                i += 1
        elif c == "(":
            new = []
            cur.append(new)
            stack.append(cur)
            cur = new
            i += 1
        elif c == ")":
            cur = stack.pop()
            i += 1
        elif c.isspace():
            i += 1
        elif c == "|":
            j = text.index("|", i + 1)
            cur.append(text[i:j + 1])
            i = j + 1
        elif c == '"':
            j = text.index('"', i + 1)
            cur.append(text[i:j + 1])
            i = j + 1
        else:
            j = i
            while j < n and not text[j].isspace() and text[j] not in "()":
                j += 1
            cur.append(text[i:j])
            i = j
    return out


def _nest(e):
    if not isinstance(e, list):
        return e
    e = [_nest(x) for x in e]
    if e and e[0] == "Array" and len(e) > 3:
        r = e[-1]
        for d in reversed(e[1:-1]):
            r = ["Array", d, r]
        return r
    if e and e[0] == "select" and len(e) > 3:
        r = e[1]
        for i in e[2:]:
            r = ["select", r, i]
        return r
    if e and e[0] == "store" and len(e) > 4:
        a, idx, v = e[1], e[2:-1], e[-1]

        def st(a, idx):
            if len(idx) == 1:
                return ["store", a, idx[0], v]
            return ["store", a, idx[0], st(["select", a, idx[0]], idx[1:])]
        return st(a, idx)
    return e


def _unparse(e):
    if isinstance(e, list):
        return "(" + " ".join(_unparse(x) for x in e) + ")"
    return e


def nest_arrays(smt2):
    """rewrite z3's multi-index arrays into nested SMT-LIB arrays (cvc5 accepts only those)"""
    out = "\n".join(_unparse(_nest(x)) for x in _parse_sexprs(smt2))
    return out.replace("(_ int_to_bv ", "(_ int2bv ").replace("ubv_to_int", "bv2nat").replace("(bv2int ", "(bv2nat ")


def run_cvc5(smt2, tlimit_s):
    with tempfile.NamedTemporaryFile("w", suffix=".smt2", delete=False) as f:
        f.write("(set-logic ALL)\n" + nest_arrays(smt2))
        path = f.name
    try:
        p = subprocess.run(["/usr/bin/cvc5", "--tlimit=%d" % (tlimit_s * 1000), "--nl-ext-tplanes", path],
                           capture_output=True, text=True, timeout=tlimit_s + 10)
        out = p.stdout.strip().splitlines()
        return (out[0] if out else "unknown"), (p.stderr.strip()[:200])
    except Exception as e:
        return "unknown", repr(e)
    finally:
        os.unlink(path)


def solve_all(obligations, entry_heaps, timeout_ms=20000, procs=None, cvc5=True, pass2=False):
    """-> list of dicts (one per obligation) with result in {unsat, sat, unknown, error}"""
    global _OBS, _CFG
    _OBS = obligations
    _CFG = {"timeout_ms": timeout_ms, "entry_heaps": entry_heaps, "cvc5": cvc5, "pass2": pass2}
    procs = procs or int(os.environ.get("PV_PROCS", "16"))
    results = [None] * len(obligations)
    if not obligations:
        return []
    ctx = mp.get_context("fork")
    with ctx.Pool(min(procs, len(obligations))) as pool:
        for (i, res, dt, backend, detail, wit) in pool.imap_unordered(_solve_one, range(len(obligations)), chunksize=1):
            ob = obligations[i]
            results[i] = {"id": ob.id, "kind": ob.kind, "function": ob.func, "line": ob.line, "text": ob.text[:400],
                          "result": res, "ms": int(dt * 1000), "backend": backend, "detail": detail, "witness": wit,
                          "expect_sat": ob.expect_sat}
    return results
