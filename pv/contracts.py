"""Parse sidecar contract files (Python *syntax*, never imported or executed as modules).

    @spec
    def nn(x): return 0.0 if isnan(x) else x

    @contract("pandora.aggregation.cbca.cbca_step_1", props=["C11"])
    def _(cv):
        types(cv="f32[:,:]")
        requires(cv.shape[0] >= 1)
        ensures("shape", result.shape[0] == cv.shape[0])
        invariant(1, <expr over locals, loop var = value about to be taken>)
        assigns()                      # caller-visible arrays/attributes that may be written
        raises_never()                 # or raises_iff(ValueError, cond)

    @assumed("np.nanmedian")           # contract of an external function: used at call sites, never proved
    @lemma("name", props=[...])        # statement over spec functions; optional induction("n", base)
"""
import ast
import glob
import os

HERE = os.path.dirname(os.path.dirname(os.path.abspath(__file__)))
CONTRACT_DIR = os.path.join(HERE, "contracts")


class Clause:
    def __init__(self, name, expr, lineno, file):
        self.name = name
        self.expr = expr
        self.lineno = lineno
        self.file = file

    def text(self):
        return ast.unparse(self.expr)


class Contract:
    def __init__(self, kind, target, fn, file, props, opts):
        self.kind = kind  # contract | assumed | lemma
        self.target = target
        self.file = file
        self.props = props
        self.opts = opts
        self.params = [a.arg for a in fn.args.args]
        self.types = {}
        self.requires = []
        self.ensures = []
        self.invariants = {}  # loop ordinal -> [Clause]
        self.unroll = {}  # loop ordinal -> True
        self.cases = {}  # parameter -> list of concrete values (finite case split)
        self.afters = {}  # loop ordinal -> [Clause]: loop summary proved on every exit path, then the only thing known
        self.assigns = None  # None = unspecified (anything), [] = pure
        self.raises_never = False
        self.raises_iff = []  # (exc name, Clause)
        self.may_raise = []  # exception names explicitly allowed without condition
        self.induction = None
        self.uses = []  # lemma names whose statements are assumed
        self.ghost = []  # statements executed before the body (ghost initialisation)
        self.domains = []  # (key, type, lambda ast, lineno): schema-domain obligations of a @tables contract
        self.options = {}
        self.lineno = fn.lineno
        n_unnamed = 0
        for st in fn.body:
            if isinstance(st, ast.Expr) and isinstance(st.value, ast.Constant):
                continue
            if not (isinstance(st, ast.Expr) and isinstance(st.value, ast.Call) and isinstance(st.value.func, ast.Name)):
                raise SyntaxError("%s:%d: contract bodies hold clause calls only" % (file, st.lineno))
            c = st.value
            f = c.func.id
            args = list(c.args)
            kw = {k.arg: k.value for k in c.keywords}

            def named(args, prefix):
                nonlocal n_unnamed
                if len(args) >= 2 and isinstance(args[0], ast.Constant) and isinstance(args[0].value, str):
                    return args[0].value, args[1:]
                n_unnamed += 1
                return "%s%d" % (prefix, n_unnamed), args

            if f == "types":
                for k, v in kw.items():
                    self.types[k] = ast.literal_eval(v)
            elif f == "requires":
                nm, rest = named(args, "pre")
                for e in rest:
                    self.requires.append(Clause(nm, e, st.lineno, file))
            elif f == "ensures":
                nm, rest = named(args, "post")
                for i, e in enumerate(rest):
                    self.ensures.append(Clause(nm if len(rest) == 1 else "%s.%d" % (nm, i), e, st.lineno, file))
            elif f == "invariant":
                k = ast.literal_eval(args[0])
                for e in args[1:]:
                    self.invariants.setdefault(k, []).append(Clause("inv%d" % k, e, st.lineno, file))
            elif f == "after":
                k = ast.literal_eval(args[0])
                for e in args[1:]:
                    self.afters.setdefault(k, []).append(Clause("after%d" % k, e, st.lineno, file))
            elif f == "cases":
                # finite case split on a scalar parameter: the function is verified once per listed value
                for k, v in kw.items():
                    self.cases[k] = ast.literal_eval(v)
            elif f == "domain":
                # domain("<key>", "int"|"float", lambda x: <documented domain>): the json_checker schema entry of the class for <key>
                # is And(<type>, <predicate>) with a predicate EQUIVALENT to the documented domain, for every value of the type
                self.domains.append((ast.literal_eval(args[0]), ast.literal_eval(args[1]), args[2], st.lineno))
            elif f == "type_cases":
                # finite case split on the STRUCTURE of a parameter (which variables a dataset has, or None): the function is
                # verified once per listed type; the clauses must be written so that they evaluate under every case
                for k, v in kw.items():
                    self.cases["type:" + k] = ast.literal_eval(v)
            elif f == "attr_cases":
                for k, v in kw.items():
                    self.cases["self." + k] = ast.literal_eval(v)
            elif f == "unroll":
                for a in args:
                    self.unroll[ast.literal_eval(a)] = True
            elif f == "assigns":
                self.assigns = [ast.unparse(a) for a in args]
            elif f == "raises_never":
                self.raises_never = True
            elif f == "raises_iff":
                self.raises_iff.append((ast.unparse(args[0]), Clause("raises_" + ast.unparse(args[0]), args[1], st.lineno, file)))
            elif f == "may_raise":
                self.may_raise += [ast.unparse(a) for a in args]
            elif f == "induction":
                self.induction = (ast.literal_eval(args[0]), args[1] if len(args) > 1 else ast.Constant(0))
            elif f == "uses":
                # uses("lemma", param=<expression over the function's entry state>, ...): unbound lemma parameters stay universal
                self.uses.append((ast.literal_eval(args[0]), dict(kw)))
            elif f == "option":
                for k, v in kw.items():
                    self.options[k] = ast.literal_eval(v)
            else:
                raise SyntaxError("%s:%d: unknown clause %s" % (file, st.lineno, f))


class SpecFn:
    def __init__(self, fn, file, src):
        self.name = fn.name
        self.fn = fn
        self.file = file
        self.params = [a.arg for a in fn.args.args]
        self.ret = fn.returns.value if isinstance(fn.returns, ast.Constant) else "real"
        body = [s for s in fn.body if not (isinstance(s, ast.Expr) and isinstance(s.value, ast.Constant))]
        if len(body) != 1 or not isinstance(body[0], ast.Return):
            raise SyntaxError("%s:%d: @spec functions are a single return expression" % (file, fn.lineno))
        self.expr = body[0].value
        self.recursive = any(isinstance(n, ast.Call) and isinstance(n.func, ast.Name) and n.func.id == fn.name for n in ast.walk(self.expr))
        self.source = ast.get_source_segment(src, fn)


class ContractDB:
    def __init__(self, directory=None):
        self.dir = directory or CONTRACT_DIR
        self.contracts = {}  # target -> Contract
        self.assumed = {}
        self.lemmas = {}
        self.specs = {}
        self.tables = {}
        self.frames = {}   # target -> frame contract (alias analysis), independent of a value contract on the same target
        self.constants = {}
        self.samplers = {}
        self.files = []
        for f in sorted(glob.glob(os.path.join(self.dir, "*.py"))):
            self._load(f)

    def _load(self, f):
        src = open(f).read()
        tree = ast.parse(src, filename=f)
        self.files.append(f)
        for n in tree.body:
            if isinstance(n, ast.Assign) and len(n.targets) == 1 and isinstance(n.targets[0], ast.Name):
                try:
                    self.constants[n.targets[0].id] = ast.literal_eval(n.value)
                except (ValueError, SyntaxError):
                    pass
            if not isinstance(n, ast.FunctionDef):
                continue
            for d in n.decorator_list:
                if isinstance(d, ast.Call) and isinstance(d.func, ast.Name) and d.func.id == "sampler":
                    # input generator for the concrete side (bounded contract evaluation); never seen by the prover
                    self.samplers[ast.literal_eval(d.args[0])] = (n, f)
                elif isinstance(d, ast.Name) and d.id == "spec":
                    s = SpecFn(n, f, src)
                    if s.name in self.specs:
                        raise SyntaxError("duplicate spec " + s.name)
                    self.specs[s.name] = s
                elif isinstance(d, ast.Call) and isinstance(d.func, ast.Name) and d.func.id == "tables":
                    # finite data obligations over the literal class-level tables of a class (evaluated exhaustively)
                    target = ast.literal_eval(d.args[0])
                    kw = {k.arg: ast.literal_eval(k.value) for k in d.keywords}
                    c = Contract("tables", target, n, f, kw.pop("props", []), kw)
                    self.tables[target + "#" + n.name + str(n.lineno)] = c
                elif isinstance(d, ast.Call) and isinstance(d.func, ast.Name) and d.func.id == "scan":
                    # repository-wide syntactic obligations (finite data: every function body of the package, re-read on every run)
                    target = ast.literal_eval(d.args[0])
                    kw = {k.arg: ast.literal_eval(k.value) for k in d.keywords}
                    c = Contract("scan", target, n, f, kw.pop("props", []), kw)
                    self.tables[target + "#scan#" + n.name + str(n.lineno)] = c
                elif isinstance(d, ast.Call) and isinstance(d.func, ast.Name) and d.func.id == "frame":
                    target = ast.literal_eval(d.args[0])
                    kw = {k.arg: ast.literal_eval(k.value) for k in d.keywords}
                    c = Contract("frame", target, n, f, kw.pop("props", []), kw)
                    c.options["alias_only"] = True
                    if target in self.frames:
                        raise SyntaxError("duplicate frame " + target)
                    self.frames[target] = c
                elif isinstance(d, ast.Call) and isinstance(d.func, ast.Name) and d.func.id in ("contract", "assumed", "lemma"):
                    target = ast.literal_eval(d.args[0])
                    kw = {k.arg: ast.literal_eval(k.value) for k in d.keywords}
                    c = Contract(d.func.id, target, n, f, kw.pop("props", []), kw)
                    tab = {"contract": self.contracts, "assumed": self.assumed, "lemma": self.lemmas}[d.func.id]
                    if target in tab:
                        raise SyntaxError("duplicate %s %s" % (d.func.id, target))
                    tab[target] = c

    def callee_contract(self, target):
        """the contract a CALL SITE sees: the proved one, else the assumed one.  A proved contract declared
        option(standalone=True) (its clauses are written for its own structural cases and do not evaluate on an arbitrary
        caller's arguments) leaves call sites to the assumed contract of the same target, which it is meant to imply."""
        c = self.contracts.get(target)
        if c is not None and c.options.get("standalone") and target in self.assumed:
            return self.assumed[target]
        return c or self.assumed.get(target)

    def for_property(self, pid):
        cs = ([c for c in self.contracts.values() if pid in c.props] + [c for c in self.tables.values() if pid in c.props]
              + [c for c in self.frames.values() if pid in c.props])
        ls = [c for c in self.lemmas.values() if pid in c.props]
        return cs, ls

    def scan_assumptions(self):
        out = []
        for k, c in sorted(self.assumed.items()):
            if k in self.contracts and self.contracts[k].options.get("standalone"):
                out.append("call sites of %s use the clause of %s:%d, which is ALSO a postcondition of the proved contract of that "
                           "function (%s:%d, written per structural case): %s" % (
                               k, os.path.relpath(c.file, HERE), c.lineno, os.path.relpath(self.contracts[k].file, HERE),
                               self.contracts[k].lineno, "; ".join(cl.text() for cl in c.ensures)[:200]))
                continue
            out.append("assumed contract on external %s (%s:%d): %s" % (
                k, os.path.relpath(c.file, HERE), c.lineno, "; ".join(cl.text() for cl in c.ensures)[:300]))
        return out
