"""Selection algebra for row-wise vectorised numpy code (CrossCheckingAccurate.disparity_checking and the like).

Every 1-D vector the code derives from positions of a row -- `cols = np.arange(n)[np.where(m)]`, `v = a[row, cols]`,
`sub = cols[np.where(cond(v))]`, `sub2 = sub[boolvector]` ... -- is represented POSITIONALLY: a `Gath` is (mask over the
position space, value as a function of the position, selection identity).  A sub-selection only strengthens the mask, so
element k of the numpy vector is the value at the k-th position where the mask holds, and two vectors are aligned element by
element exactly when they have the same selection identity `sel` (elementwise operations, masked assignments and scatters
require it; anything else is refused -- numpy would raise or broadcast, which is not modelled).

2-D families `np.tile(vec, (len(sel), 1))` / `np.tile(sel_values, (len(vec), 1)).transpose()` are gathers over
(position, k) with the mask of the selection.

`np.sum(boolean 2-D family, axis=1)` is an ASSUMED contract: S(x) >= 0 and (S(x) == 0 iff no k satisfies the condition).
"""
import ast
import z3
from . import fl
from .fl import SFloat
from .vals import SArr, SList, SFunc, Unsupported, fresh_name, fresh_int, I
from .lazy import LArr, SData, SDs, _Lit, elem, shape_of, dtype_of, frozen, zi, _num
from .expr import (is_int, is_boolv, is_bv, is_float, as_bool, zb, to_int, simp_bool, band, bor, bnot, merge, arith, compare,
                   BINOPS, CMPOPS)
from .state import array_read, coerce_scalar
from .gather import Gath, WhereIdx, WhereComp, is_arr, arr_dt, scalar_op, mask_root


def sel_of(g):
    s = getattr(g, "sel", None)
    if s is None:
        s = ("mask", mask_root(g.mask))
    return s


def same_sel(a, b):
    sa, sb = sel_of(a), sel_of(b)
    return _eq(sa, sb)


def _eq(a, b):
    if isinstance(a, tuple) and isinstance(b, tuple):
        return len(a) == len(b) and all(_eq(x, y) for x, y in zip(a, b))
    if isinstance(a, (str, int)) or isinstance(b, (str, int)):
        return type(a) == type(b) and a == b
    return a is b


def mk(mask, val, dt, sel, nd=1):
    g = Gath(mask, val, dt)
    g.sel = sel
    g.nd = nd
    return g


class Count:
    """len(selected vector)"""
    def __init__(self, g):
        self.g = g


class GShape:
    """.shape of a 2-D family"""
    def __init__(self, g):
        self.g = g


class TileT:
    """np.tile(selected vector, (n, 1)): shape (n, len(sel)) -- only its transpose is used"""
    def __init__(self, g, n):
        self.g, self.n = g, n


def and_mask(m, condval, name="sub"):
    r = LArr("b", m.shape, lambda ix, st2, m=m, condval=condval: band(as_bool(m.get(ix, st2)), as_bool(condval(ix, st2))), None, name)
    r.root = mask_root(m)
    return r


class SelectMixin:
    # ------------------------------------------------------------------------------------------------- creation / identity
    def e_Subscript(self, n, st):
        base = self.eval(n.value, st)
        if isinstance(base, Gath):
            idx = self.index_list(n.slice, st)
            if len(idx) == 1:
                i = idx[0]
                if isinstance(i, tuple) and len(i) == 1:
                    i = i[0]
                # vec[np.where(cond over the same selection)]
                if isinstance(i, WhereIdx) and getattr(i, "of", None) is not None:
                    c = i.of
                    if not same_sel(base, c):
                        raise Unsupported("vector indexed by the positions of another selection (line %d)" % n.lineno)
                    return mk(and_mask(base.mask, c.val), base.val, base.dt, i.sel, getattr(base, "nd", 1))
                # vec[boolean vector over the same selection]
                if isinstance(i, Gath) and i.dt == "b":
                    if not same_sel(base, i):
                        raise Unsupported("boolean index over another selection (line %d)" % n.lineno)
                    return mk(and_mask(base.mask, i.val), base.val, base.dt, (sel_of(base), "mask", i), getattr(base, "nd", 1))
            raise Unsupported("index form on a selected vector (line %d)" % n.lineno)
        if isinstance(base, GShape) or isinstance(base, Count):
            raise Unsupported("subscript of a symbolic shape (line %d)" % n.lineno)
        if is_arr(base):
            idx = self.index_list(n.slice, st)
            gi = [k for k, i in enumerate(idx) if isinstance(i, Gath)]
            if gi and any(not (isinstance(i, tuple) and i and isinstance(i[0], str) and i[0] == "slice") and not isinstance(i, Gath)
                          for i in idx):
                return self.index_gather_mixed(base, idx, gi, st, n)
        return super().e_Subscript(ast.Subscript(value=_Lit(base), slice=n.slice, ctx=n.ctx, lineno=n.lineno, col_offset=0), st)

    def index_gather_mixed(self, base, idx, gi, st, n):
        """src[row, J]: scalars on the other axes, J an integer index family (1-D or 2-D) -- the values src[row, J(p)]"""
        shape = list(shape_of(base))
        if len(gi) != 1 or len(idx) != len(shape):
            raise Unsupported("index-array form (line %d)" % n.lineno)
        k = gi[0]
        J = idx[k]
        if J.dt != "i":
            raise Unsupported("index family must hold integers (line %d)" % n.lineno)
        fixed = {}
        for kk, i in enumerate(idx):
            if kk != k:
                if not (is_int(i) or is_boolv(i)):
                    raise Unsupported("index-array form: other axes must be scalars (line %d)" % n.lineno)
                fixed[kk] = self.norm_index(getattr(base, "name", "a"), i, shape[kk], st, n)
        src = frozen(base, st)
        nd = getattr(J, "nd", 1)
        if not self.spec:
            p = [z3.Int(fresh_name("jp")) for _ in range(nd)]
            g = zi(to_int(J.val(p, st)))
            inr = [z3.And(x >= 0, x < zi(s_)) for x, s_ in zip(p, J.mask.shape)]
            self.emit(st, "bounds", "L%d.take" % n.lineno,
                      z3.ForAll(p, z3.Implies(z3.And(*(inr + [zb(as_bool(J.mask.get(p, st)))])), z3.And(g >= 0, g < zi(shape[k])))), n,
                      "every selected index is inside axis %d of the indexed array" % k)

        def val(ix, st2, src=src, J=J, k=k, fixed=fixed, ndim=len(shape)):
            full = [None] * ndim
            for kk, v in fixed.items():
                full[kk] = v
            full[k] = zi(to_int(J.val(ix, st2)))
            return elem(src, full, st2)
        return mk(J.mask, val, arr_dt(base), sel_of(J), nd)

    # ------------------------------------------------------------------------------------------------------------ numpy calls
    def b_numpy_where(self, args, kw, st, n):
        if len(args) == 1 and isinstance(args[0], Gath):
            g = args[0]
            if g.dt != "b":
                raise Unsupported("np.where of a non-boolean selected vector (line %d)" % n.lineno)
            w = WhereIdx(and_mask(g.mask, g.val, "where"))
            w.of = g
            w.sel = (sel_of(g), "where", g)
            return w
        return super().b_numpy_where(args, kw, st, n)

    def _map1(self, g, fn, dt=None):
        return mk(g.mask, lambda ix, st2, g=g, fn=fn: fn(g.val(ix, st2)), dt or g.dt, sel_of(g), getattr(g, "nd", 1))

    def b_numpy_rint(self, args, kw, st, n):
        v = args[0]
        if isinstance(v, Gath):
            return self._map1(v, lambda x: fl.rint(fl.F(x)) if is_float(x) else x)
        if is_float(v):
            return fl.rint(fl.F(v))
        if is_int(v):
            return v
        raise Unsupported("np.rint of %r (line %d)" % (type(v), n.lineno))

    b_rint = b_numpy_rint

    def b_numpy_abs(self, args, kw, st, n):
        v = args[0]
        if isinstance(v, Gath):
            from .lazy import CallAbs
            return self._map1(v, CallAbs)
        return super().b_numpy_abs(args, kw, st, n)

    def b_abs(self, args, kw, st, n):
        # the builtin abs() on an array is numpy's elementwise absolute value (ndarray.__abs__)
        if isinstance(args[0], (Gath, SArr, LArr)):
            return self.b_numpy_abs(args, kw, st, n)
        return super().b_abs(args, kw, st, n)

    def b_len(self, args, kw, st, n):
        if isinstance(args[0], Gath):
            return Count(args[0])
        return super().b_len(args, kw, st, n)

    def b_numpy_tile(self, args, kw, st, n):
        a, reps = args
        if not (isinstance(reps, tuple) and len(reps) == 2 and reps[1] == 1):
            raise Unsupported("np.tile form (line %d)" % n.lineno)
        if isinstance(reps[0], Count) and is_arr(a) and len(shape_of(a)) == 1:
            # (len(sel), K): row p holds the vector a
            g = reps[0].g
            K = shape_of(a)[0]
            src = frozen(a, st)
            mask2 = LArr("b", [g.mask.shape[0], K], lambda ix, st2, g=g: g.mask.get([ix[0]], st2), None, "tile-mask")
            mask2.root = mask_root(g.mask)
            return mk(mask2, lambda ix, st2, src=src: elem(src, [ix[1]], st2), arr_dt(a), ("tile2", sel_of(g), str(K)), 2)
        if isinstance(a, Gath) and getattr(a, "nd", 1) == 1 and (is_int(reps[0])):
            return TileT(a, reps[0])
        raise Unsupported("np.tile form (line %d)" % n.lineno)

    def m_transpose(self, recv, args, kw, st, n):
        if isinstance(recv, TileT):
            g, K = recv.g, recv.n
            mask2 = LArr("b", [g.mask.shape[0], K], lambda ix, st2, g=g: g.mask.get([ix[0]], st2), None, "tile-mask")
            mask2.root = mask_root(g.mask)
            return mk(mask2, lambda ix, st2, g=g: g.val([ix[0]], st2), g.dt, ("tile2", sel_of(g), str(zi(K))), 2)
        return super().m_transpose(recv, args, kw, st, n)

    def b_numpy_full(self, args, kw, st, n):
        if args and isinstance(args[0], GShape):
            g = args[0].g
            fill = args[1]
            dt = "f" if is_float(fill) or "float" in str(getattr(kw.get("dtype"), "name", "")) else "i"
            fv = fl.F(fill) if dt == "f" else fill
            return mk(g.mask, lambda ix, st2, fv=fv: fv, dt, sel_of(g), getattr(g, "nd", 1))
        return super().b_numpy_full(args, kw, st, n)

    def b_numpy_sum(self, args, kw, st, n):
        v = args[0]
        axis = kw.get("axis", args[1] if len(args) > 1 else None)
        if isinstance(v, Gath) and getattr(v, "nd", 1) == 2 and axis == 1:
            # assumed contract of a sum over booleans along axis 1:  S(x) >= 0  and  (S(x) == 0  <=>  no k holds)
            s = sel_of(v)
            if not (isinstance(s, tuple) and s and s[0] == "tile2"):
                raise Unsupported("np.sum(axis=1) of a 2-D family that is not a full tile (line %d)" % n.lineno)
            S = z3.Function(fresh_name("rowsum"), I, I)
            x, k = z3.Int(fresh_name("sx")), z3.Int(fresh_name("sk"))
            K = zi(v.mask.shape[1])
            e = v.val([x, k], st)
            if is_boolv(e) or isinstance(e, bool):
                nz = zb(as_bool(e))
            else:
                e = zi(to_int(e))
                if not self.spec:
                    self.emit(st, "pre@call", "rowsum.L%d" % n.lineno, z3.ForAll([x, k], z3.Implies(z3.And(k >= 0, k < K), e >= 0)), n,
                              "np.sum(axis=1) over non-negative elements")
                nz = e != 0
            inner_pats = []
            if self.opt("witness_marks", False):
                inner_pats = [self.witness_mark(k)]
                # S(x) != 0 gives a marked witness; S(x) == 0 is a universal that marked terms instantiate
                W = z3.Function(fresh_name("rowwit"), I, I)
                st.assume(z3.ForAll([x], z3.Implies(S(x) != 0, z3.And(W(x) >= 0, W(x) < K, z3.substitute(nz, (k, W(x))),
                                                                      self.witness_mark(W(x)))), patterns=[S(x)]))
                st.assume(z3.ForAll([x], z3.And(S(x) >= 0, z3.Implies(S(x) == 0, z3.ForAll(
                    [k], z3.Implies(z3.And(k >= 0, k < K), z3.Not(nz)), patterns=inner_pats))), patterns=[S(x)]))
            else:
                st.assume(z3.ForAll([x], z3.And(S(x) >= 0, (S(x) == 0) == z3.ForAll([k], z3.Implies(z3.And(k >= 0, k < K), z3.Not(nz)))),
                                    patterns=[S(x)]))
            parent_sel = s[1]
            m1 = LArr("b", [v.mask.shape[0]], lambda ix, st2, v=v: v.mask.get([ix[0], z3.IntVal(0)], st2), None, "rows")
            m1.root = mask_root(v.mask)
            return mk(m1, lambda ix, st2, S=S: S(zi(ix[0])), "i", parent_sel, 1)
        return super().b_numpy_sum(args, kw, st, n)

    # ------------------------------------------------------------------------------------------------------------ attributes
    def e_Attribute(self, n, st):
        base = self.eval(n.value, st)
        if isinstance(base, Gath) and n.attr in ("shape", "size"):
            return GShape(base) if n.attr == "shape" else Count(base)
        if isinstance(base, TileT):
            return SFunc(name="tile." + n.attr, handler=("method", base))
        return super().e_Attribute(ast.Attribute(value=_Lit(base), attr=n.attr, ctx=n.ctx, lineno=n.lineno, col_offset=0), st)

    def call_method(self, recv, meth, args, kwargs, st, n):
        if isinstance(recv, TileT) and meth == "transpose":
            return self.m_transpose(recv, args, kwargs, st, n)
        return super().call_method(recv, meth, args, kwargs, st, n)

    # -------------------------------------------------------------------------------------------- elementwise: aligned operands
    def gath_op(self, op, a, b, st, n):
        if isinstance(a, Gath) and isinstance(b, Gath):
            if not same_sel(a, b):
                raise Unsupported("elementwise operation on vectors over different selections (line %d)" % getattr(n, "lineno", 0))
        g = a if isinstance(a, Gath) else b
        spec = self.spec

        def val(ix, st2, a=a, b=b, op=op, spec=spec):
            x = a.val(ix, st2) if isinstance(a, Gath) else a
            y = b.val(ix, st2) if isinstance(b, Gath) else b
            if op in ("&", "|") and (is_boolv(x) or isinstance(x, bool)) and (is_boolv(y) or isinstance(y, bool)):
                return band(x, y) if op == "&" else bor(x, y)
            return scalar_op(op, x, y, spec)
        dt = "b" if op in ("==", "!=", "<", "<=", ">", ">=") else ("f" if "f" in (getattr(a, "dt", ""), getattr(b, "dt", "")) or
                                                                   is_float(a) or is_float(b) else g.dt)
        if op in ("&", "|") and getattr(a, "dt", "b") == "b" and getattr(b, "dt", "b") == "b":
            dt = "b"
        return mk(g.mask, val, dt, sel_of(g), getattr(g, "nd", 1))

    # --------------------------------------------------------------------------------- masked assignment to a LOCAL selected vector
    def assign_target(self, t, v, st, s=None):
        if isinstance(t, (ast.Tuple, ast.List)) and isinstance(v, SData) and isinstance(v.arr, SList):
            # a, b = dataset["two-element variable"]: iteration over a DataArray yields its elements
            return super().assign_target(t, tuple(v.arr.items), st, s)
        if isinstance(t, ast.Subscript) and isinstance(t.value, ast.Name) and isinstance(st.vars.get(t.value.id), Gath):
            cur = st.vars[t.value.id]
            idx = self.index_list(t.slice, st)
            i = idx[0] if len(idx) == 1 else None
            if isinstance(i, tuple) and len(i) == 1:
                i = i[0]
            cond = None
            if isinstance(i, Gath) and i.dt == "b" and same_sel(cur, i):
                cond = i.val
                vsel_ok = (not isinstance(v, Gath)) or _eq(sel_of(v), (sel_of(cur), "mask", i))
            elif isinstance(i, WhereIdx) and getattr(i, "of", None) is not None and same_sel(cur, i.of):
                cond = i.of.val
                vsel_ok = (not isinstance(v, Gath)) or _eq(sel_of(v), i.sel)
            if cond is None:
                raise Unsupported("masked assignment to a selected vector: index over another selection (line %d)" % t.lineno)
            if not vsel_ok:
                raise Unsupported("masked assignment to a selected vector: value over another selection (line %d)" % t.lineno)
            if is_arr(v):
                raise Unsupported("masked assignment of an array value (line %d)" % t.lineno)

            def val(ix, st2, cur=cur, cond=cond, v=v):
                nv = v.val(ix, st2) if isinstance(v, Gath) else v
                ov = cur.val(ix, st2)
                if cur.dt == "f":
                    nv, ov = fl.F(_num(nv)) if not isinstance(nv, SFloat) else nv, fl.F(_num(ov)) if not isinstance(ov, SFloat) else ov
                return merge(as_bool(cond(ix, st2)), nv, ov)
            st.vars[t.value.id] = mk(cur.mask, val, cur.dt, sel_of(cur), getattr(cur, "nd", 1))
            return
        return super().assign_target(t, v, st, s)

    # -------------------------------------------------------------------------------------- scatters  a[row, J] (op)= vector
    def full_mask(self, arr, idx, st, n):
        shape = list(shape_of(arr))
        gi = [k for k, i in enumerate(idx) if isinstance(i, Gath)]
        if len(gi) == 1 and len(idx) == len(shape) and all(is_int(i) or is_boolv(i) for kk, i in enumerate(idx) if kk != gi[0]):
            k = gi[0]
            J = idx[k]
            if getattr(J, "nd", 1) != 1 or J.dt != "i":
                raise Unsupported("store through a 2-D / non-integer index family (line %d)" % n.lineno)
            # positions select themselves: J(x) == x on the selection
            x = z3.Int(fresh_name("gx"))
            g = zi(to_int(J.val([x], st)))
            sv = z3.Solver()
            sv.set("timeout", 2000)
            sv.add(list(st.pc) + [zb(as_bool(J.mask.get([x], st))), x >= 0, x < zi(J.mask.shape[0]), g != x])
            if sv.check() != z3.unsat:
                raise Unsupported("store through a computed index array that is not the identity on its selection (line %d)" % n.lineno)
            if not self.spec:
                self.emit(st, "bounds", "L%d.axis%d" % (n.lineno, k), simp_bool(zi(J.mask.shape[0]) <= zi(shape[k])), n,
                          "selected positions lie inside axis %d" % k)
            fixed = {kk: self.norm_index(getattr(arr, "name", "a"), i, shape[kk], st, n) for kk, i in enumerate(idx) if kk != k}

            def get(ix, st2, J=J, k=k, fixed=fixed):
                c = [as_bool(J.mask.get([ix[k]], st2))]
                for kk, v in fixed.items():
                    c.append(zi(ix[kk]) == zi(v))
                return band(*c)
            m = LArr("b", shape, get, None, "row-mask")
            m.root = mask_root(J.mask)
            m.sel = sel_of(J)
            m.axis = k
            return m
        return super().full_mask(arr, idx, st, n)
