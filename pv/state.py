"""Execution state, obligations and the per-function verification context."""
import z3
from . import fl
from .fl import SFloat
from .vals import (SArr, SList, SObj, SStr, Unsupported, fresh_int, fresh_bool, fresh_float, fresh_bv,
                   fresh_array_term, fresh_name, dtype_sort, parse_type, I, sel, sto)


class Obligation:
    def __init__(self, oid, kind, hyps, goal, func, line, text, inputs=None, prop=None):
        self.id = oid
        self.kind = kind
        self.hyps = hyps
        self.goal = goal
        self.func = func
        self.line = line
        self.text = text
        self.inputs = inputs or []
        self.prop = prop
        self.expect_sat = False  # canaries / covers: must be satisfiable

    def formula(self):
        return list(self.hyps) + [z3.Not(self.goal)]


class State:
    def __init__(self):
        self.vars = {}
        self.pc = []
        self.heap = {}  # cell id -> z3 array or (K, V) pair for floats
        self.attrs = {}  # (object name, attr) -> value   (mutable object fields)
        self.log = None  # access log for race obligations (list) or None
        self.ghost = {}

    def fork(self):
        s = State()
        s.vars = dict(self.vars)
        s.pc = list(self.pc)
        s.heap = dict(self.heap)
        s.attrs = dict(self.attrs)
        s.log = self.log  # shared on purpose: accesses of all paths of one iteration are collected
        s.ghost = dict(self.ghost)
        memo = {}
        for k, v in s.vars.items():
            if type(v).__name__ == "SDs":
                if id(v) not in memo:
                    c = type(v)(v.name, dict(v.vars), dict(v.coords), dict(v.attrs), dict(v.sizes))
                    memo[id(v)] = c
                s.vars[k] = memo[id(v)]
        return s

    def assume(self, c):
        if isinstance(c, bool):
            if not c:
                self.pc.append(z3.BoolVal(False))
            return
        self.pc.append(c)


_cell_ids = [0]


def new_cell():
    _cell_ids[0] += 1
    return _cell_ids[0]


def alloc_array(st, base, dt, shape, init=None):
    """allocate a fresh heap cell; init: None (unconstrained) or python/z3 scalar for a constant fill"""
    nd = len(shape)
    cid = new_cell()
    idx = [z3.Int("q%d!" % k) for k in range(nd)]
    if dt == "f":
        K = fresh_array_term(base + ".k", nd, fl.FK)
        V = fresh_array_term(base + ".v", nd, z3.RealSort())
        st.heap[cid] = (K, V)
        if init is not None:
            f = fl.F(init)
            st.assume(z3.ForAll(idx, sel(K, idx) == f.k, patterns=[sel(K, idx)]))
            st.assume(z3.ForAll(idx, sel(V, idx) == f.v, patterns=[sel(V, idx)]))
    else:
        A = fresh_array_term(base, nd, dtype_sort(dt))
        st.heap[cid] = A
        if init is not None:
            if dt.startswith("u"):
                iv = z3.BitVecVal(init, int(dt[1:])) if isinstance(init, int) else init
            elif dt == "r":
                iv = fl.F(init).v
            elif dt == "b":
                iv = z3.BoolVal(bool(init)) if isinstance(init, (bool, int)) else init
            else:
                iv = z3.IntVal(init) if isinstance(init, int) else init
            st.assume(z3.ForAll(idx, sel(A, idx) == iv, patterns=[sel(A, idx)]))
    return SArr(cid, dt, shape, name=base)


def havoc_cell(st, arr, base="hv"):
    nd = len(arr.shape)
    if arr.dt == "f":
        st.heap[arr.cell] = (fresh_array_term(base + ".k", nd, fl.FK), fresh_array_term(base + ".v", nd, z3.RealSort()))
    else:
        st.heap[arr.cell] = fresh_array_term(base, nd, dtype_sort(arr.dt))


def array_read(st, arr, idx):
    h = arr.snap if arr.snap is not None else st.heap[arr.cell]
    full = list(arr.fixed) + list(idx)
    if arr.dt == "f":
        return SFloat(sel(h[0], full), sel(h[1], full))
    if arr.dt == "r":  # array of finite reals (finiteness is a declared invariant of the array)
        return SFloat(fl.FIN, sel(h, full), True)
    if arr.dt == "s":
        return SStr(sel(h, full))
    return sel(h, full)


def array_write(st, arr, idx, val):
    h = st.heap[arr.cell]
    full = list(arr.fixed) + list(idx)
    if arr.dt == "f":
        f = fl.F(val) if not isinstance(val, SFloat) else val
        st.heap[arr.cell] = (sto(h[0], full, f.k), sto(h[1], full, f.v))
    else:
        st.heap[arr.cell] = sto(h, full, coerce_scalar(val, arr.dt))


def is_float_like(v):
    return isinstance(v, (SFloat, float))


def to_int_like(v):
    if isinstance(v, bool):
        return int(v)
    if z3.is_expr(v) and z3.is_bool(v):
        return z3.If(v, z3.IntVal(1), z3.IntVal(0))
    if z3.is_expr(v) and z3.is_bv(v):
        return z3.BV2Int(v, False)
    return v


def int2bv(t, w):
    """Int2BV distributed over ite, +, -, * by constants and mod 2**w (a ring homomorphism Z -> Z/2**w): the conversion then
    reaches the leaves, where it meets constants or atomic terms"""
    if z3.is_int_value(t):
        return z3.BitVecVal(t.as_long(), w)
    if z3.is_app(t):
        k = t.decl().kind()
        ch = t.children()
        if k == z3.Z3_OP_ITE:
            return z3.If(ch[0], int2bv(ch[1], w), int2bv(ch[2], w))
        if k == z3.Z3_OP_ADD:
            r = int2bv(ch[0], w)
            for c in ch[1:]:
                r = r + int2bv(c, w)
            return r
        if k == z3.Z3_OP_SUB:
            r = int2bv(ch[0], w)
            for c in ch[1:]:
                r = r - int2bv(c, w)
            return r
        if k == z3.Z3_OP_UMINUS:
            return -int2bv(ch[0], w)
        if k == z3.Z3_OP_MUL:
            r = int2bv(ch[0], w)
            for c in ch[1:]:
                r = r * int2bv(c, w)
            return r
        if k == z3.Z3_OP_MOD and z3.is_int_value(ch[1]) and ch[1].as_long() == 2 ** w:
            return int2bv(ch[0], w)
    return z3.Int2BV(t, w)


def coerce_scalar(val, dt):
    """coerce a value to the element sort of an array with dtype code dt"""
    if dt == "f":
        return fl.F(val)
    if dt == "r":
        return (val if isinstance(val, SFloat) else fl.F(val if is_float_like(val) else to_int_like(val))).v
    if dt == "s":
        if isinstance(val, SStr):
            return val.tok
        if isinstance(val, str):
            from .vals import intern_str
            return z3.IntVal(intern_str(val))
        raise Unsupported("a non-string stored into an array of strings")
    if dt == "i":
        if isinstance(val, bool):
            return z3.IntVal(int(val))
        if isinstance(val, int):
            return z3.IntVal(val)
        if z3.is_bool(val):
            return z3.If(val, z3.IntVal(1), z3.IntVal(0))
        if z3.is_bv(val):
            return z3.BV2Int(val, False)
        if isinstance(val, SFloat):
            return fl.trunc_int(val)
        return val
    if dt == "b":
        if isinstance(val, (bool, int)):
            return z3.BoolVal(bool(val))
        if z3.is_int(val):
            return val != 0
        return val
    if dt.startswith("u"):
        w = int(dt[1:])
        if isinstance(val, bool):
            val = int(val)
        if isinstance(val, int):
            return z3.BitVecVal(val, w)
        if z3.is_bool(val):
            return z3.If(val, z3.BitVecVal(1, w), z3.BitVecVal(0, w))
        if z3.is_int(val):
            return int2bv(val, w)
        if z3.is_bv(val):
            if val.size() == w:
                return val
            if val.size() < w:
                return z3.ZeroExt(w - val.size(), val)
            return z3.Extract(w - 1, 0, val)
        if isinstance(val, SFloat):
            return z3.Int2BV(fl.trunc_int(val), w)
    raise Unsupported("coerce %r to %s" % (val, dt))


def fresh_of_type(st, name, ty, inputs=None):
    """fresh symbolic value of a declared type; appends witness descriptors to `inputs`"""
    t = parse_type(ty)
    k = t[0]
    if k == "int":
        v = fresh_int(name)
    elif k == "float":
        v = fresh_float(name)
    elif k == "bool":
        v = fresh_bool(name)
    elif k == "str":
        v = SStr(fresh_int(name + ".tok"))
    elif k == "bv":
        v = fresh_bv(name, t[1])
    elif k == "none":
        v = None
    elif k == "margins":
        # a pandora.margins.Margins record: four non-negative integers (its __post_init__ refuses negative values)
        parts = [fresh_int("%s.%s" % (name, f_)) for f_ in ("left", "up", "right", "down")]
        for p_ in parts:
            st.assume(p_ >= 0)
        v = ("Margins",) + tuple(parts)
    elif k == "ilist":
        v = SList([fresh_int("%s[%d]" % (name, i)) for i in range(t[1])], "i")
    elif k == "flist":
        v = SList([fresh_float("%s[%d]" % (name, i)) for i in range(t[1])], "f")
    elif k == "arr":
        shape = [fresh_int("%s.n%d" % (name, d)) for d in range(t[2])]
        for s in shape:
            st.assume(s >= 0)
        v = alloc_array(st, name, t[1], shape)
        v.name = name
    elif k == "tuple":
        v = tuple(fresh_of_type(st, "%s.%d" % (name, i), x, None) for i, x in enumerate(ty))
    elif k == "func":
        from .vals import SFunc
        v = SFunc(target=t[1], name=name)
    elif k == "obj":
        v = SObj(name)
    elif k == "objattrs":
        v = SObj(name, {an: fresh_of_type(st, "%s.%s" % (name, an), at, None) for an, at in t[1].items()})
        v.attrs["__dict__"] = dict(v.attrs)
    elif k == "opaque":
        from .glue import Op
        v = Op(name, "param")
    elif k == "where2d":
        from .gather import WhereIdx
        from .lazy import LArr
        n0, n1 = fresh_int(name + ".n0"), fresh_int(name + ".n1")
        st.assume(n0 >= 0)
        st.assume(n1 >= 0)
        m = alloc_array(st, name + ".mask", "b", [n0, n1])
        m.name = name + ".mask"
        v = WhereIdx(LArr("b", [n0, n1], (lambda ix, st2, m=m: array_read(st2, m, ix)), None, "param-mask"))
        v.param_mask = m
    elif k == "where1d":
        # the value of np.where(m) for an unknown 1-D boolean array m: a 1-tuple of increasing, distinct positions
        from .gather import WhereIdx
        from .lazy import LArr
        n_ = fresh_int(name + ".n")
        st.assume(n_ >= 0)
        m = alloc_array(st, name + ".mask", "b", [n_])
        m.name = name + ".mask"
        v = WhereIdx(LArr("b", [n_], (lambda ix, st2, m=m: array_read(st2, m, ix)), None, "param-mask"))
        v.param_mask = m
    elif k == "dict":
        v = {kk: fresh_of_type(st, "%s[%s]" % (name, kk), vv, None) for kk, vv in t[1].items()}
        if inputs is not None:
            inputs.append((name, t, v))
        return v
    elif k == "da":
        from .lazy import SData
        v = SData(fresh_of_type(st, name, t[1]["dataarray"], None), dims=t[1].get("dims"), name=name)
    elif k == "ds":
        from .lazy import SDs, SData
        spec = t[1]
        dims = spec.get("dims", {})
        variables = {vn: SData(fresh_of_type(st, "%s[%s]" % (name, vn), vt, None), name=vn, dims=dims.get(vn))
                     for vn, vt in spec.get("vars", {}).items()}
        coords = {cn: SData(fresh_of_type(st, "%s.coords[%s]" % (name, cn), ct, None), name=cn) for cn, ct in spec.get("coords", {}).items()}
        attrs = {an: fresh_of_type(st, "%s.attrs[%s]" % (name, an), at, None) for an, at in spec.get("attrs", {}).items()}
        sizes = {}
        for dn, ref in spec.get("sizes", {}).items():
            if ref == "int":
                sizes[dn] = fresh_int("%s.sizes[%s]" % (name, dn))
                st.assume(sizes[dn] >= 0)
                continue
            vn, ax = ref.rsplit(".", 1)
            src = variables.get(vn) or coords.get(vn)
            sizes[dn] = src.arr.shape[int(ax)]
        v = SDs(name, variables, coords, attrs, sizes)
    else:
        raise Unsupported("type " + repr(ty))
    if inputs is not None:
        inputs.append((name, t, v))
    return v
