"""/venv/bin/python -m pv.fuzz OUT.json SEED N TARGET[=CONTRACT] ...   (bounded contract evaluation on the real code)"""
import json
import sys

from pv import rt as R


def main():
    out, seed, n = sys.argv[1], int(sys.argv[2]), int(sys.argv[3])
    rt = R.RtContracts()
    res = []
    for t in sys.argv[4:]:
        tgt, _, con = t.partition("=")
        try:
            res.append(R.fuzz(rt, tgt, n, seed, con or None))
        except Exception as e:
            res.append({"target": tgt, "evaluations": 0, "accepted": 0, "violations": [], "errors": ["fuzz crashed: %r" % (e,)]})
    json.dump(res, open(out, "w"), indent=1, default=str)


if __name__ == "__main__":
    main()
