"""CLI: prove the contracts attached to a property (or a single target) and print/write the results."""
import argparse
import json
import sys
import time
import traceback
from . import contracts, verify, solve
from .vals import Unsupported


def prove_targets(db, targets, lemmas=(), timeout_ms=20000, verbose=False):
    obs, funcs, undecided, heaps = [], [], [], {}
    t0 = time.time()
    for cc in targets:
        if cc.opts.get("abstract"):
            continue
        if cc.kind in ("tables", "scan"):
            try:
                o, rec = verify.verify_scan(db, cc) if cc.kind == "scan" else verify.verify_tables(db, cc)
                heaps[id(o[0].inputs) if o else 0] = {}
                for ob in o:
                    heaps[id(ob.inputs)] = {}
                obs += o
                rec["contract"] = cc.target
                rec["obligations"] = len(o)
                funcs.append(rec)
            except Exception as e:
                undecided.append({"function": cc.target, "contract": cc.target, "reason": "engine error: %r" % e})
            continue
        if cc.options.get("alias_only"):
            try:
                o, rec = verify.verify_alias(db, cc)
                for ob in o:
                    heaps[id(ob.inputs)] = {}
                obs += o
                rec["contract"] = cc.target
                rec["obligations"] = len(o)
                funcs.append(rec)
            except (Unsupported, NotImplementedError) as e:
                undecided.append({"function": cc.target, "contract": cc.target, "reason": "Unsupported (alias analysis): %s" % e})
            except Exception as e:
                undecided.append({"function": cc.target, "contract": cc.target, "reason": "engine error: %r" % e,
                                  "trace": traceback.format_exc()[-1500:]})
            continue
        variants = [(cc, cc.target, None)]
        impl = cc.opts.get("implements")
        if impl and impl in db.contracts:
            variants.append((db.contracts[impl], cc.target, cc.target + "@" + impl.split(".")[-2]))
        import itertools
        expanded = []
        for (c2, tgt, prefix) in variants:
            if c2.cases:
                names = sorted(c2.cases)
                for combo in itertools.product(*[c2.cases[n] for n in names]):
                    fx = dict(zip(names, combo))
                    tag = ",".join(("%s=T%d" % (k_[5:], c2.cases[k_].index(v_))) if k_.startswith("type:") else "%s=%r" % (k_, v_)
                                   for k_, v_ in sorted(fx.items()))
                    expanded.append((c2, tgt, (prefix or tgt) + "[" + tag + "]", fx))
            else:
                expanded.append((c2, tgt, prefix, None))
        for (c2, tgt, prefix, fx) in expanded:
            try:
                ex, o, fi = verify.verify_contract(db, c2, target=tgt, prefix=prefix, fixed=fx)
                heaps[id(ex.inputs)] = ex.old_state.heap
                obs += o
                rec = fi.record()
                rec["contract"] = c2.target
                rec["obligations"] = len(o)
                if c2.options.get("glue") or c2.options.get("frame_only") or c2.options.get("no_fuzz"):
                    rec["no_fuzz"] = True  # trace contracts of orchestration code have no concrete evaluator
                funcs.append(rec)
            except Unsupported as e:
                undecided.append({"function": tgt, "contract": c2.target, "prefix": prefix or tgt, "reason": "Unsupported: %s" % e})
                if getattr(e, "partial", None):
                    ex, o, fi = e.partial
                    heaps[id(ex.inputs)] = ex.old_state.heap if ex.old_state is not None else {}
                    for ob in o:
                        ob.partial = True
                    obs += o
            except Exception as e:
                undecided.append({"function": tgt, "contract": c2.target, "prefix": prefix or tgt, "reason": "engine error: %r" % e,
                                  "trace": traceback.format_exc()[-1500:]})
    for lm in lemmas:
        try:
            ex, o = verify.verify_lemma(db, lm)
            heaps[id(ex.inputs)] = {}
            obs += o
        except Unsupported as e:
            undecided.append({"function": "lemma:" + lm.target, "reason": "Unsupported: %s" % e})
        except Exception as e:
            undecided.append({"function": "lemma:" + lm.target, "reason": "engine error: %r" % e,
                              "trace": traceback.format_exc()[-1500:]})
    t_gen = time.time() - t0
    res = solve.solve_all(obs, heaps, timeout_ms=timeout_ms)
    # second pass for obligations left undecided (solver timeouts, typically under machine load): fewer workers, six times
    # the budget.  Verdicts must not flip because all cores are busy.
    retry = [i for i, x in enumerate(res) if x["result"] in ("unknown", "error") and not x["expect_sat"]]
    if retry and len(retry) <= 24:
        res2 = solve.solve_all([obs[i] for i in retry], heaps, timeout_ms=timeout_ms * 6, procs=4, pass2=True)
        for i, x in zip(retry, res2):
            if x["result"] in ("unsat", "sat"):
                x["detail"] = (x.get("detail") or "") + " (decided in the second pass)"
                x["ms"] += res[i]["ms"]
                res[i] = x
            else:
                res[i]["detail"] = (res[i].get("detail") or "") + " | second pass: " + str(x.get("detail"))
                res[i]["ms"] += x["ms"]
    # partial obligations (function undecided as a whole): keep only the ones that did NOT discharge
    res = [x for x, ob in zip(res, obs) if not (getattr(ob, "partial", False) and x["result"] == "unsat")]
    return {"functions": funcs, "results": res, "undecided_functions": undecided, "gen_s": round(t_gen, 2),
            "solve_s": round(time.time() - t0 - t_gen, 2)}


def main():
    ap = argparse.ArgumentParser()
    ap.add_argument("what", help="property id (C06) or a contract target")
    ap.add_argument("--timeout-ms", type=int, default=20000)
    ap.add_argument("--out")
    ap.add_argument("-v", action="store_true")
    a = ap.parse_args()
    db = contracts.ContractDB()
    if a.what == "frames":
        cs, ls = list(db.frames.values()), []
    elif a.what.endswith("#frame") and a.what[:-6] in db.frames:
        cs, ls = [db.frames[a.what[:-6]]], []
    elif a.what in db.contracts:
        cs, ls = [db.contracts[a.what]], []
    elif a.what in db.lemmas:
        cs, ls = [], [db.lemmas[a.what]]
    else:
        cs, ls = db.for_property(a.what)
    r = prove_targets(db, cs, ls, a.timeout_ms, a.v)
    if a.out:
        json.dump(r, open(a.out, "w"), indent=1)
    bad = 0
    for x in r["results"]:
        ok = (x["result"] == "sat") if x["expect_sat"] else (x["result"] == "unsat")
        if not ok:
            bad += 1
        if a.v or not ok:
            print("%-7s %-6s %5dms %s   %s" % (x["result"], x["backend"], x["ms"], x["id"], x["text"][:100]))
            if x["witness"] and not ok:
                print("        witness:", json.dumps(x["witness"])[:600])
    for u in r["undecided_functions"]:
        print("UNDECIDED", u["function"], u["reason"])
        if a.v and "trace" in u:
            print(u["trace"])
    print("obligations=%d failed=%d undecided_functions=%d gen=%ss solve=%ss" % (
        len(r["results"]), bad, len(r["undecided_functions"]), r["gen_s"], r["solve_s"]))


if __name__ == "__main__":
    main()
