"""numpy comprehension model: lazily defined arrays (views, elementwise results, reductions), array_split chunk lists,
first-extremum argmin/argmax as assumed contracts, fancy indexing, and a small xarray Dataset facade.

A lazy array is (dtype code, shape, get(idx, st) -> scalar value).  Views read the heap at evaluation time (so a write
through the base is seen, as in numpy); results of computations are frozen at creation (snapshotted leaves).
"""
import ast
import z3
from . import fl
from .fl import SFloat
from .vals import (SArr, SList, SObj, SFunc, SStr, Unsupported, fresh_int, fresh_name, I, sel)
from .state import array_read, coerce_scalar, alloc_array, new_cell
from .expr import (is_int, is_boolv, is_bv, is_float, as_bool, zb, to_int, simp_bool, band, bor, bnot, merge, arith, compare)


def zi(v):
    return z3.IntVal(v) if isinstance(v, int) else v


class LArr:
    """lazily defined n-d array"""
    def __init__(self, dt, shape, get, base=None, name="lazy"):
        self.dt = dt
        self.shape = tuple(shape)
        self.get = get  # get(idx list, st) -> value
        self.base = base  # (SArr, index map idx -> absolute idx) when this is a plain view of a heap array
        self.name = name

    @property
    def ndim(self):
        return len(self.shape)

    def view_shape(self):
        return self.shape


class SChunks:
    """np.array_split(a, np.arange(c, n, c), axis): chunk j is a[j*c : min((j+1)*c, n)] along `axis` (views of a)"""
    def __init__(self, arr, axis, size, n):
        self.arr = arr
        self.axis = axis
        self.size = size
        self.n = n
        nz = zi(n)
        self.count = z3.If(nz <= size, z3.IntVal(1), (nz + (size - 1)) / size)

    def chunk(self, j):
        a, ax, c, n = self.arr, self.axis, self.size, zi(self.n)
        jz = zi(j)
        lo = jz * c
        hi = z3.If(lo + c < n, lo + c, n)
        shape = list(shape_of(a))
        shape[ax] = z3.simplify(hi - lo)

        def get(idx, st, a=a, ax=ax, lo=lo):
            idx = list(idx)
            idx[ax] = zi(idx[ax]) + lo
            return elem(a, idx, st)
        base = None
        b = base_of(a)
        if b is not None:
            arr0, mp = b

            def mp2(idx, mp=mp, ax=ax, lo=lo):
                idx = list(idx)
                idx[ax] = zi(idx[ax]) + lo
                return mp(idx)
            base = (arr0, mp2)
        return LArr(dtype_of(a), shape, get, base, name="chunk")


class SData:
    """xarray.DataArray facade: .data / .shape / .dims / .coords"""
    def __init__(self, arr, dims=None, name=None, owner=None, coords=None):
        self.arr = arr
        self.dims = dims
        self.name = name
        self.owner = owner   # the dataset whose coordinates label this array (None: a bare array, assigned positionally)
        self.coords = coords  # {dim: coordinate array} given explicitly to xr.DataArray(...), else None


class SDs:
    """xarray.Dataset facade: ds[name] -> SData, ds.coords[name] -> SData, ds.attrs[name], ds.sizes[dim]"""
    def __init__(self, name, variables, coords, attrs, sizes):
        self.name = name
        self.vars = variables
        self.coords = coords
        self.attrs = attrs
        self.sizes = sizes
        for d in list(variables.values()) + list(coords.values()):
            if isinstance(d, SData) and getattr(d, "owner", None) is None:
                d.owner = self


def shape_of(a):
    if isinstance(a, SArr):
        return a.view_shape()
    if isinstance(a, LArr):
        return a.shape
    raise Unsupported("shape of %r" % type(a))


def dtype_of(a):
    return a.dt


def elem(a, idx, st):
    if isinstance(a, SArr):
        return array_read(st, a, idx)
    if isinstance(a, LArr):
        return a.get(idx, st)
    raise Unsupported("element of %r" % type(a))


def base_of(a):
    """(heap array, map view index -> absolute index) or None when a is not a plain view"""
    if isinstance(a, SArr):
        return a, (lambda idx, f=a.fixed: list(f) + list(idx))
    if isinstance(a, LArr):
        return a.base
    return None


def frozen(a, st):
    """a lazy array whose contents are those of `a` now (numpy computes eagerly)"""
    if isinstance(a, SArr):
        if a.snap is not None:
            return a
        return SArr(a.cell, a.dt, a.shape, a.fixed, a.name, snap=st.heap[a.cell])
    if isinstance(a, LArr) and a.base is not None:
        # a VIEW of a heap array (slice / chunk / window): numpy computes eagerly, so an operand taken from a view holds the
        # contents the base has NOW, whatever is stored into the base afterwards
        arr0, mp = a.base
        if arr0.snap is not None:
            return a
        snap = SArr(arr0.cell, arr0.dt, arr0.shape, (), arr0.name, snap=st.heap[arr0.cell])
        return LArr(a.dt, a.shape, lambda ix, st2, snap=snap, mp=mp: array_read(st2, snap, mp(ix)), None, a.name + "@")
    return a  # computed LArr results are built from frozen leaves by construction (see elementwise)


class LazyMixin:
    # ------------------------------------------------------------ reading
    def array_get_lazy(self, arr, idx, st, n):
        shape = arr.shape
        if any(isinstance(i, tuple) for i in idx) or len(idx) < len(shape):
            return self.slice_lazy(arr, idx, st, n)
        norm = [self.norm_index(arr.name, i, s, st, n) for i, s in zip(idx, shape)]
        return arr.get(norm, st)

    def slice_lazy(self, arr, idx, st, n):
        """basic slicing of a lazy array -> lazy view"""
        shape = list(shape_of(arr))
        idx = list(idx) + [("slice", None, None, None)] * (len(shape) - len(idx))
        axes = []
        out_shape = []
        for i, s_ in zip(idx, shape):
            if isinstance(i, tuple):
                lo, hi = self._slice_bounds(i, s_, st, n)
                axes.append(("s", lo))
                out_shape.append(z3.simplify(z3.If(hi < lo, z3.IntVal(0), hi - lo)))
            else:
                axes.append(("i", self.norm_index(getattr(arr, "name", "a"), i, s_, st, n)))

        def mp(ix, axes=axes):
            full, k = [], 0
            for ax in axes:
                if ax[0] == "i":
                    full.append(ax[1])
                else:
                    full.append(zi(ix[k]) + ax[1])
                    k += 1
            return full

        def get(ix, st2, arr=arr, mp=mp):
            return elem(arr, mp(ix), st2)
        base = None
        b = base_of(arr)
        if b is not None:
            base = (b[0], lambda ix, b=b, mp=mp: b[1](mp(ix)))
        return LArr(dtype_of(arr), out_shape, get, base, name="slice")

    def e_Subscript(self, n, st):
        base = self.eval(n.value, st)
        if isinstance(base, LArr):
            idx = self.index_list(n.slice, st)
            if len(idx) == 1 and isinstance(idx[0], (LArr, SArr)):
                return self.fancy_index(base, idx[0], st, n)
            return self.array_get_lazy(base, idx, st, n)
        if isinstance(base, SArr):
            idx = self.index_list(n.slice, st)
            if len(idx) == 1 and isinstance(idx[0], (LArr,)):
                return self.fancy_index(base, idx[0], st, n)
            if len(idx) == 1 and isinstance(idx[0], SArr) and idx[0].dt == "i":
                return self.fancy_index(base, idx[0], st, n)
            if self.opt("lazy_slices", False) and (any(isinstance(i, tuple) for i in idx) or len(idx) < base.ndim):
                return self.slice_lazy(base, idx, st, n)
        if isinstance(base, SDs):
            k = self.eval(n.slice, st)
            if isinstance(k, str) and k in base.vars:
                return base.vars[k]
            raise Unsupported("dataset variable %r (line %d)" % (k, n.lineno))
        if isinstance(base, SData):
            return self.e_Subscript(ast.Subscript(value=_Lit(base.arr), slice=n.slice, ctx=n.ctx, lineno=n.lineno, col_offset=0), st)
        if isinstance(base, SChunks):
            j = to_int(self.eval(n.slice, st))
            return base.chunk(j)
        if isinstance(base, _Map):
            k = self.eval(n.slice, st)
            if isinstance(k, str) and k in base.d:
                return base.d[k]
            raise Unsupported("key %r of %s (line %d)" % (k, base.name, n.lineno))
        if isinstance(base, (SArr, LArr, SDs, SData, SChunks, _Map)) or True:
            return super().e_Subscript(ast.Subscript(value=_Lit(base), slice=n.slice, ctx=n.ctx, lineno=n.lineno, col_offset=0), st)

    def e__Lit(self, n, st):
        return n.v

    def contains(self, container, item, st, n):
        if isinstance(container, _Map):
            if isinstance(item, str):
                return item in container.d
            raise Unsupported("membership of a symbolic key in %s (line %d)" % (container.name, n.lineno))
        if isinstance(container, SDs):
            if isinstance(item, str):
                return item in container.vars or item in container.coords
        return super().contains(container, item, st, n)

    def fancy_index(self, arr, index, st, n):
        """a[idx_array] for a 1-D a: result has idx_array's shape"""
        if len(shape_of(arr)) != 1:
            raise Unsupported("fancy indexing of a %d-D array (line %d)" % (len(shape_of(arr)), n.lineno))
        src = frozen(arr, st)
        dim = shape_of(arr)[0]
        ishape = shape_of(index)
        if not self.spec:
            q = [z3.Int(fresh_name("fi")) for _ in ishape]
            inb = [z3.And(x >= 0, x < zi(s_)) for x, s_ in zip(q, ishape)]
            v = zi(to_int(elem(index, q, st)))
            self.emit(st, "bounds", "L%d" % n.lineno, z3.ForAll(q, z3.Implies(z3.And(*inb), z3.And(v >= -zi(dim), v < zi(dim)))), n,
                      "every index of the index array is within the indexed array")

        def get(ix, st2, src=src, index=index, dim=dim):
            i = zi(to_int(elem(index, ix, st2)))
            i = z3.If(i < 0, i + zi(dim), i)
            return elem(src, [i], st2)
        return LArr(dtype_of(arr), ishape, get, None, name="take")

    # ------------------------------------------------------------ attributes
    def e_Attribute(self, n, st):
        base = self.eval(n.value, st)
        a = n.attr
        if isinstance(base, LArr):
            if a == "shape":
                return tuple(base.shape)
            if a == "ndim":
                return base.ndim
            if a == "data":
                return base
            return SFunc(name="ndarray." + a, handler=("method", base))
        if isinstance(base, SData):
            if a == "data":
                return base.arr
            if a == "shape":
                return tuple(shape_of(base.arr))
            if a == "dims":
                return tuple(base.dims or ())
            if a == "coords":
                # the coordinates a DataArray carries: its own, else those of the dataset it belongs to, for ITS dimensions
                dims = base.dims.items if isinstance(base.dims, SList) else base.dims
                if dims is None:
                    raise Unsupported("coords of a DataArray without declared dims (line %d)" % n.lineno)
                own = getattr(base, "coords", None) or {}
                src = getattr(base, "owner", None)
                out = {}
                for d_ in dims:
                    if d_ in own:
                        out[d_] = own[d_] if isinstance(own[d_], SData) else SData(own[d_], name=d_)
                    elif src is not None and d_ in src.coords:
                        out[d_] = src.coords[d_]
                return _Map(out, (base.name or "dataarray") + ".coords")
            return SFunc(name="dataarray." + a, handler=("method", base))
        if isinstance(base, SDs):
            if a == "coords":
                return _Map(base.coords, base.name + ".coords")
            if a == "attrs":
                return _Map(base.attrs, base.name + ".attrs")
            if a == "sizes":
                return _Map(base.sizes, base.name + ".sizes")
            if a == "data_vars":
                return _Map(base.vars, base.name + ".data_vars")
            if a in base.coords:
                return base.coords[a]
            if a in base.vars:
                return base.vars[a]
            if a in ("drop_dims",):
                return SFunc(name="dataset." + a, handler=("method", base))
            raise Unsupported("dataset attribute %s (line %d)" % (a, n.lineno))
        # re-dispatch without re-evaluating the base expression
        return super().e_Attribute(ast.Attribute(value=_Lit(base), attr=a, ctx=n.ctx, lineno=n.lineno, col_offset=0), st)

    # ------------------------------------------------------------ numpy calls
    def b_numpy_arange(self, args, kw, st, n):
        args = list(args) + ([kw["step"]] if "step" in kw and len(args) == 2 else [])
        if any(isinstance(x, (float, fl.SFloat)) for x in args):
            # np.arange(lo, hi, 1) with a fractional start (coordinate labels): lo + i for i < ceil(hi - lo)
            lo, hi = args[0], args[1]
            step = args[2] if len(args) > 2 else 1
            if isinstance(lo, fl.SFloat):
                v_ = z3.simplify(lo.v)
                if z3.is_rational_value(v_) and z3.simplify(lo.k == fl.FIN) is not None and z3.is_true(z3.simplify(lo.k == fl.FIN)):
                    lo = float(v_.as_fraction())
            if not (isinstance(lo, float) and step == 1 and not isinstance(hi, (float, fl.SFloat))):
                raise Unsupported("np.arange with float arguments (line %d)" % n.lineno)
            import math
            fl_lo = math.floor(lo)
            frac = lo - fl_lo
            hi_z = zi(to_int(hi))
            cnt = hi_z - fl_lo     # ceil(hi - lo) for an integer hi and lo = floor(lo) + frac, 0 <= frac < 1
            cnt = z3.simplify(z3.If(cnt < 0, z3.IntVal(0), cnt))
            return LArr("f", [cnt], lambda ix, st2, lo=lo: fl.add(fl.F(lo), fl.F(zi(ix[0]))), None, "arange_f")
        a = [to_int(x) for x in args]
        if len(a) == 1:
            lo, hi, step = 0, a[0], 1
        elif len(a) == 2:
            lo, hi, step = a[0], a[1], 1
        else:
            lo, hi, step = a
        if not isinstance(step, int) or step <= 0:
            raise Unsupported("np.arange step (line %d)" % n.lineno)
        lo_z, hi_z = zi(lo), zi(hi)
        cnt = z3.If(hi_z <= lo_z, z3.IntVal(0), (hi_z - lo_z + (step - 1)) / step)
        r = LArr("i", [z3.simplify(cnt)], lambda ix, st2, lo_z=lo_z, step=step: lo_z + zi(ix[0]) * step, None, "arange")
        r.arange = (lo, hi, step)
        return r

    def b_numpy_array_split(self, args, kw, st, n):
        a, sections = args[0], args[1]
        axis = kw.get("axis", args[2] if len(args) > 2 else 0)
        if not isinstance(axis, int):
            raise Unsupported("array_split axis (line %d)" % n.lineno)
        ar = getattr(sections, "arange", None)
        if ar is None:
            raise Unsupported("array_split sections must be np.arange(c, n, c) (line %d)" % n.lineno)
        lo, hi, step = ar
        if not (isinstance(lo, int) and isinstance(step, int) and lo == step):
            raise Unsupported("array_split sections must be np.arange(c, n, c) (line %d)" % n.lineno)
        dim = shape_of(a)[axis]
        if not self.spec:
            g = simp_bool(zi(hi) == zi(dim))
            if g is not True:
                self.emit(st, "pre@call", "array_split.L%d" % n.lineno, g, n,
                          "array_split(a, arange(c, n, c)): n is the extent of the split axis")
                st.assume(g)
        return SChunks(a, axis, step, dim)

    def sview_to_lazy(self, v):
        _, arr, axes = v
        shape = [z3.simplify(z3.If(ax[2] < ax[1], z3.IntVal(0), ax[2] - ax[1])) for ax in axes if ax[0] == "s"]

        def mp(ix, axes=axes):
            full, k = [], 0
            for ax in axes:
                if ax[0] == "i":
                    full.append(ax[1])
                else:
                    full.append(zi(ix[k]) + ax[1])
                    k += 1
            return full
        b = base_of(arr)
        return LArr(arr.dt, shape, lambda ix, st2, arr=arr, mp=mp: elem(arr, mp(ix), st2),
                    (b[0], lambda ix, b=b, mp=mp: b[1](mp(ix))), name="slice")

    def _extremum(self, args, kw, st, n, is_min):
        a = args[0]
        if isinstance(a, tuple) and a and isinstance(a[0], str) and a[0] == "sview":
            a = self.sview_to_lazy(a)
        axis = kw.get("axis", args[1] if len(args) > 1 else None)
        shape = list(shape_of(a))
        if axis is None:
            if len(shape) != 1:
                raise Unsupported("argmin without axis on %d-D (line %d)" % (len(shape), n.lineno))
            axis = 0
        if axis < 0:
            axis += len(shape)
        b = base_of(a)
        if b is None or b[0].dt not in ("f", "r", "i"):
            raise Unsupported("argmin/argmax of a computed array (line %d)" % n.lineno)
        arr0, mp = b
        # absolute index pattern: probe the map with symbolic positions
        probe = [z3.Int(fresh_name("pb")) for _ in shape]
        absidx = mp(probe)
        # the reduced axis of the view must map to exactly one absolute axis (offset lo), the others must not depend on it
        red_abs = None
        for k, t in enumerate(absidx):
            t = zi(t)
            if _mentions(t, probe[axis]):
                if red_abs is not None:
                    raise Unsupported("argmin: reduced axis maps to several absolute axes")
                red_abs = k
        if red_abs is None:
            raise Unsupported("argmin: cannot locate the reduced axis")
        lo = z3.simplify(z3.substitute(zi(absidx[red_abs]), (probe[axis], z3.IntVal(0))))
        hi = z3.simplify(lo + zi(shape[axis]))
        UF = self.extremum_uf(arr0, red_abs, is_min, st)
        out_shape = [s_ for k, s_ in enumerate(shape) if k != axis]
        if not self.spec:
            g = simp_bool(zi(shape[axis]) >= 1)
            if g is not True:
                self.emit(st, "pre@call", "argmin.L%d" % n.lineno, g, n, "argmin/argmax of a non-empty axis")
                st.assume(g)

        def get(ix, st2, mp=mp, axis=axis, red_abs=red_abs, UF=UF, lo=lo, hi=hi):
            full = list(ix[:axis]) + [z3.IntVal(0)] + list(ix[axis:])
            ab = [zi(t) for t in mp(full)]
            others = [t for k, t in enumerate(ab) if k != red_abs]
            return UF(*(others + [lo, hi]))
        if len(out_shape) == 0:
            return get([], st)
        return LArr("i", out_shape, get, None, name="argmin" if is_min else "argmax")

    def extremum_uf(self, arr0, red_abs, is_min, st):
        """assumed contract of np.argmin / np.argmax over [lo, hi) of one axis of a NaN-free array: the FIRST index of
        the extremum.  r = UF(other absolute indices..., lo, hi) is relative to lo."""
        h = arr0.snap if arr0.snap is not None else st.heap[arr0.cell]
        self._keep.append(h)
        key = ("ext", tuple(x.get_id() for x in (h if isinstance(h, tuple) else (h,))), red_abs, is_min)
        if key in self._uf_cache:
            return self._uf_cache[key]
        nd = len(arr0.shape)
        UF = z3.Function(fresh_name("argmin" if is_min else "argmax"), *([I] * (nd - 1 + 2) + [I]))
        o = [z3.Int(fresh_name("o")) for _ in range(nd - 1)]
        lo, hi, k = z3.Int(fresh_name("lo")), z3.Int(fresh_name("hi")), z3.Int(fresh_name("k"))
        r = UF(*(o + [lo, hi]))
        frozen_arr = SArr(arr0.cell, arr0.dt, arr0.shape, (), arr0.name, snap=h)

        def at(p):
            full = o[:red_abs] + [p] + o[red_abs:]
            return array_read(st, frozen_arr, full)
        vr = at(lo + r)
        vk = at(k)
        better = compare("<=" if is_min else ">=", vr, vk)
        strict = compare(">" if is_min else "<", vk, vr)
        nonan = z3.BoolVal(True)
        if arr0.dt == "f":
            nonan = z3.ForAll([k], z3.Implies(z3.And(k >= lo, k < hi), z3.Not(fl.isnan(at(k)))))
        ax = z3.ForAll(o + [lo, hi], z3.Implies(z3.And(hi > lo, nonan), z3.And(
            r >= 0, r < hi - lo,
            z3.ForAll([k], z3.Implies(z3.And(k >= lo, k < hi), zb(better))),
            z3.ForAll([k], z3.Implies(z3.And(k >= lo, k < lo + r), zb(strict))))), patterns=[r])
        self.axioms.append(ax)
        # the extremum of a line is a function of the LINE'S CONTENTS: two arrays that agree on [lo, hi) of a line have the same
        # first extremum there (lets a specification speak about np.argmin of an array that exists only as a local in the code)
        fam_key = ("extfam", red_abs, is_min, nd, arr0.dt)
        fam = self._uf_cache.setdefault(fam_key, [])
        for (other, OUF) in fam:
            o2 = [z3.Int(fresh_name("xo")) for _ in range(nd - 1)]
            lo2, hi2, k2 = z3.Int(fresh_name("xlo")), z3.Int(fresh_name("xhi")), z3.Int(fresh_name("xk"))
            full2 = o2[:red_abs] + [k2] + o2[red_abs:]
            ea, eb = array_read(st, frozen_arr, full2), array_read(st, other, full2)
            same = fl.same(fl.F(ea), fl.F(eb)) if arr0.dt == "f" else (ea == eb)
            agree = z3.ForAll([k2], z3.Implies(z3.And(k2 >= lo2, k2 < hi2), same))
            concl = UF(*(o2 + [lo2, hi2])) == OUF(*(o2 + [lo2, hi2]))
            self.axioms.append(z3.ForAll(o2 + [lo2, hi2], z3.Implies(agree, concl), patterns=[UF(*(o2 + [lo2, hi2]))]))
            self.axioms.append(z3.ForAll(o2 + [lo2, hi2], z3.Implies(agree, concl), patterns=[OUF(*(o2 + [lo2, hi2]))]))
        fam.append((frozen_arr, UF))
        if self.opt("witness_marks", False) and hasattr(self, "witness_mark"):
            # the extremum index is a candidate witness for the existentials of the specification
            self.axioms.append(z3.ForAll(o + [lo, hi], self.witness_mark(lo + r), patterns=[r]))
            self.axioms.append(z3.ForAll(o + [lo, hi], self.witness_mark(r), patterns=[r]))
        self._uf_cache[key] = UF
        return UF

    def b_numpy_argmin(self, args, kw, st, n):
        return self._extremum(args, kw, st, n, True)

    def b_numpy_argmax(self, args, kw, st, n):
        return self._extremum(args, kw, st, n, False)

    # ------------------------------------------------------------ elementwise / small reductions used by the kernels
    def b_numpy_abs(self, args, kw, st, n):
        a = args[0]
        if isinstance(a, (SArr, LArr)):
            src = frozen(a, st)
            return LArr(dtype_of(a), shape_of(a), lambda ix, st2, src=src: CallAbs(elem(src, ix, st2)), None, "abs")
        return super().b_numpy_abs(args, kw, st, n)

    def b_numpy_argsort(self, args, kw, st, n):
        """assumed contract: a permutation of range(len(a)) (the ORDER is not modelled: nothing proved depends on it)"""
        a = args[0]
        shape = shape_of(a)
        if len(shape) != 1:
            raise Unsupported("argsort of a %d-D array (line %d)" % (len(shape), n.lineno))
        P = z3.Function(fresh_name("argsort"), I, I)
        i, j = z3.Int(fresh_name("i")), z3.Int(fresh_name("j"))
        nn = zi(shape[0])
        st.assume(z3.ForAll([i], z3.Implies(z3.And(i >= 0, i < nn), z3.And(P(i) >= 0, P(i) < nn)), patterns=[P(i)]))
        st.assume(z3.ForAll([i, j], z3.Implies(z3.And(i >= 0, i < nn, j >= 0, j < nn, i != j), P(i) != P(j)),
                            patterns=[z3.MultiPattern(P(i), P(j))]))
        return LArr("i", [shape[0]], lambda ix, st2, P=P: P(zi(ix[0])), None, "argsort")

    def b_numpy_nanmedian(self, args, kw, st, n):
        """assumed contract: NaN iff every element is NaN; otherwise a non-NaN value between two non-NaN elements"""
        a = args[0]
        shape = shape_of(a)
        if len(shape) != 1 or kw.get("axis") is not None:
            raise Unsupported("nanmedian form (line %d)" % n.lineno)
        src = frozen(a, st)
        from .vals import fresh_float
        r = fresh_float("nanmedian")
        i = z3.Int(fresh_name("i"))
        nn = zi(shape[0])
        inr = z3.And(i >= 0, i < nn)
        e = fl.F(_num(elem(src, [i], st)))
        allnan = z3.ForAll([i], z3.Implies(inr, fl.isnan(e)))
        lo = z3.Exists([i], z3.And(inr, z3.Not(fl.isnan(e)), fl.le(e, r)))
        hi = z3.Exists([i], z3.And(inr, z3.Not(fl.isnan(e)), fl.le(r, e)))
        st.assume(z3.And(fl.isnan(r) == allnan, z3.Implies(z3.Not(fl.isnan(r)), z3.And(lo, hi))))
        return r

    def sum2d(self, v, dims, st, n):
        """np.sum over a 2-D slice of NON-NEGATIVE integer elements (flag tests): assumed contract
        S >= 0 and (S == 0 <=> every element is 0)"""
        if self.elem_is_float(v):
            raise Unsupported("np.sum over a 2-D float slice (line %d)" % n.lineno)
        S = fresh_int("sum2d")
        a, b = z3.Int(fresh_name("a")), z3.Int(fresh_name("b"))
        (lo0, hi0), (lo1, hi1) = dims
        e = zi(to_int(self.sview_elem(self._rebase0(v), [a, b], st)))
        inr = z3.And(a >= lo0, a < hi0, b >= lo1, b < hi1)
        if not self.spec:
            q = z3.ForAll([a, b], z3.Implies(inr, e >= 0))
            self.emit(st, "pre@call", "sum2d.L%d" % n.lineno, q, n, "np.sum over flags: elements are non-negative")
        st.assume(z3.And(S >= 0, (S == 0) == z3.ForAll([a, b], z3.Implies(inr, e == 0))))
        return S

    def _rebase0(self, v):
        """same view with every slice starting at absolute position 0 (positions are then absolute)"""
        if v[0] == "smap":
            return ("smap", self._rebase0(v[1]), v[2])
        _, arr, axes = v
        return ("sview", arr, [ax if ax[0] == "i" else ("s", z3.IntVal(0), ax[2]) for ax in axes])

    def b_enumerate(self, args, kw, st, n):
        if isinstance(args[0], SChunks):
            return ("enumerate_chunks", args[0])
        return super().b_enumerate(args, kw, st, n)

    def b_len(self, args, kw, st, n):
        v = args[0]
        if isinstance(v, SChunks):
            return v.count
        if isinstance(v, LArr):
            return v.shape[0]
        return super().b_len(args, kw, st, n)

    def m_astype(self, recv, args, kw, st, n):
        dt = args[0] if args else kw.get("dtype")
        from .npmodel import dtype_code
        code = dtype_code(dt)
        src = frozen(recv, st)

        def get(ix, st2, src=src, code=code):
            return coerce_scalar(elem(src, ix, st2), code) if code != "f" else fl.F(_num(elem(src, ix, st2)))
        return LArr(code, shape_of(recv), get, None, name="astype")

    # ------------------------------------------------------------ statements
    def s_For(self, s, st):
        it = None
        if isinstance(s.iter, ast.Call):
            try:
                f = ast.unparse(s.iter.func)
            except Exception:
                f = ""
            if f == "enumerate":
                it = self.eval(s.iter, st)
        if it is None and isinstance(s.iter, ast.Name) and isinstance(st.vars.get(s.iter.id), SChunks) and isinstance(s.target, ast.Name):
            # for chunk in chunks:  ==  for k<ordinal> in range(len(chunks)): chunk = chunks[k<ordinal>]   (ghost counter)
            it = ("enumerate_chunks", st.vars[s.iter.id], "k%d" % self.loop_ordinals.get(id(s), 0))
        if isinstance(it, tuple) and it and it[0] == "enumerate_chunks":
            chunks = it[1]
            if len(it) == 3:
                jname, cname = it[2], s.target.id
            elif not (isinstance(s.target, ast.Tuple) and len(s.target.elts) == 2 and all(isinstance(e, ast.Name) for e in s.target.elts)):
                raise Unsupported("enumerate target (line %d)" % s.lineno)
            else:
                jname, cname = s.target.elts[0].id, s.target.elts[1].id
            # for j in range(len(chunks)): c = chunks[j]; body
            bind = ast.Assign(targets=[ast.Name(id=cname, ctx=ast.Store())],
                              value=ast.Subscript(value=_Lit(chunks), slice=ast.Name(id=jname, ctx=ast.Load()), ctx=ast.Load()),
                              lineno=s.lineno)
            loop = ast.For(target=ast.Name(id=jname, ctx=ast.Store()),
                           iter=_Lit(("range", 0, chunks.count, 1, False)), body=[bind] + list(s.body), orelse=[], lineno=s.lineno)
            ast.fix_missing_locations(loop)
            for m in ast.walk(loop):
                if not hasattr(m, "lineno"):
                    m.lineno = s.lineno
                    m.col_offset = 0
            self.loop_ordinals[id(loop)] = self.loop_ordinals.get(id(s), 0)
            return super().s_For(loop, st)
        return super().s_For(s, st)

    def array_set_slice(self, arr, idx, v, st, node):
        if isinstance(v, LArr):
            v = ("lazyval", v)
        return super().array_set_slice(arr, idx, v, st, node)


class _Lit(ast.expr):
    """an already evaluated value spliced into an AST"""
    _fields = ()

    def __init__(self, v):
        super().__init__()
        self.v = v
        self.lineno = 0
        self.col_offset = 0


class _Map:
    """read-only mapping facade (ds.coords, ds.attrs, ds.sizes)"""
    def __init__(self, d, name):
        self.d = d
        self.name = name


def _mentions(t, v):
    seen, stack = set(), [t]
    while stack:
        x = stack.pop()
        if x.get_id() in seen:
            continue
        seen.add(x.get_id())
        if x.eq(v):
            return True
        stack.extend(x.children())
    return False


def _num(v):
    if isinstance(v, SFloat):
        return v
    return to_int(v)


def CallAbs(v):
    if is_float(v):
        return fl.fabs(fl.F(v))
    v = to_int(v)
    return abs(v) if isinstance(v, int) else z3.If(v >= 0, v, -v)
