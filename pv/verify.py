"""Generate the verification conditions of one function against one contract."""
import ast
import json
import re
import z3
from . import fl, extract
from .vals import SArr, SList, SObj, SFunc, SStr, Unsupported, intern_str, SYMLOG
from .state import State, Obligation, fresh_of_type
from .expr import as_bool, bnot, band, zb
from .symex import Exec
from .npmodel import NpMixin
from .lazy import LazyMixin
from .glue import GlueMixin
from .frame import FrameMixin
from .gather import GatherMixin
from .windows import WindowMixin
from .select import SelectMixin
from .flow import FlowMixin
from .stmts import NORMAL, RETURN, RAISE


class Engine(FrameMixin, GlueMixin, FlowMixin, WindowMixin, SelectMixin, GatherMixin, LazyMixin, NpMixin, Exec):
    pass


def verify_contract(db, cc, target=None, prefix=None, engine_cls=Engine, fixed=None):
    """-> (engine, obligations, funcinfo).  Raises Unsupported when the function leaves the supported subset."""
    target = target or cc.target
    fi = extract.load_function(target)
    from . import expr as _expr
    _expr.ABSTRACT_SQUARE = bool(cc.options.get("abstract_square"))
    ex = engine_cls(db, fi, cc, prefix=prefix or target)
    ex.local_cells = set()
    ex.local_iter_cells = set()
    ex.assignable_cells = set()
    st = State()
    fn = fi.node
    params = [a.arg for a in fn.args.args]
    if cc.params and [p for p in cc.params] != params:
        raise Unsupported("contract parameters %s do not match %s%s" % (cc.params, target, params))
    for p in params:
        ty = cc.types.get(p)
        if ty is None:
            if p in ("self", "cls"):
                ty = "obj"
            else:
                raise Unsupported("no type declared for parameter %s of %s" % (p, target))
        if fixed and ("type:" + p) in fixed:
            ty = fixed["type:" + p]
            if ty is None:
                st.vars[p] = None
                ex.inputs.append((p, ("const",), None))
                continue
        if fixed and p in fixed:
            st.vars[p] = fixed[p]
            ex.inputs.append((p, ("const",), fixed[p]))
            continue
        st.vars[p] = fresh_of_type(st, p, ty, ex.inputs)
        if fixed and p == "self":
            for k_, val_ in fixed.items():
                if k_.startswith("self."):   # attr_cases(<attr>=[...]): a finite case split on an attribute of self
                    st.vars[p].attrs[k_[5:]] = val_
    # defaults are not applied: every parameter is symbolic
    if cc.assigns is not None:
        for nm in cc.assigns:
            v = st.vars.get(nm)
            if isinstance(v, SArr):
                ex.assignable_cells.add(v.cell)
            elif type(v).__name__ == "SDs":  # a dataset: all its arrays
                for d in list(v.vars.values()) + list(v.coords.values()):
                    if isinstance(getattr(d, "arr", None), SArr):
                        ex.assignable_cells.add(d.arr.cell)
    ex.setup_objects(st) if hasattr(ex, "setup_objects") else None
    for cl in cc.requires:
        st.assume(as_bool(ex.eval_spec(cl.expr, st)))
    for lm in cc.uses:
        ex.assume_lemma(lm, st)
    entry = st.fork()
    ex.old_state = entry
    ex.entry_vars = dict(st.vars)
    # cover: the precondition is satisfiable
    cov = Obligation(ex.oid("cover", "requires"), "cover", list(ex.axioms) + list(st.pc), z3.BoolVal(False), target, fn.lineno,
                     "precondition is satisfiable", ex.inputs)
    cov.expect_sat = True
    ex.obligations.append(cov)
    ex.number_loops(fn)
    try:
        outs = ex.exec_block(fn.body, st)
    except Unsupported as e:
        # obligations generated before the function left the supported subset are still worth discharging: a FAILED one
        # is reported; discharged ones are not counted (the function is undecided as a whole)
        for ob in ex.obligations:
            have = set(h.get_id() for h in ob.hyps)
            ob.hyps = [a for a in ex.axioms if a.get_id() not in have] + ob.hyps
        e.partial = (ex, [o for o in ex.obligations if not o.expect_sat], fi)
        raise
    n_ret = 0
    for (s2, oc, pl) in outs:
        if oc in (NORMAL, RETURN):
            n_ret += 1
            check_post(ex, cc, s2, pl, fn, n_ret)
        elif oc == RAISE:
            check_raise(ex, cc, s2, pl, fn)
    if n_ret == 0 and not cc.raises_iff and not cc.may_raise:
        raise Unsupported("no normal return path in %s" % target)
    # axioms were possibly added after obligations were recorded: make every obligation see all of them
    ax_ids = set(a.get_id() for a in ex.axioms)
    for ob in ex.obligations:
        have = set(h.get_id() for h in ob.hyps)
        ob.hyps = [a for a in ex.axioms if a.get_id() not in have] + ob.hyps
    return ex, ex.obligations, fi


def post_state(ex, s2):
    """state in which postconditions are evaluated: final heap/attributes, parameters as at entry"""
    p = s2.fork()
    p.vars = dict(ex.entry_vars)
    p.log = None
    return p


def check_post(ex, cc, s2, value, fn, k):
    p = post_state(ex, s2)
    ex.result = value
    refused = [t for t in (cc.options.get("always_refused") or []) if ("[" + t + "]") in (ex.prefix or "") or ("," + t + "]") in (ex.prefix or "")
               or ("[" + t + ",") in (ex.prefix or "")]
    if refused:
        # a structural case that the function must refuse whatever the contents: the return path is to be UNREACHABLE
        ex.emit(p, "post", "always_refused", False, fn, "no normal return for the case %s" % refused[0])
        return
    if k == 1:
        can = Obligation(ex.oid("canary", "return%d" % k), "canary", list(ex.axioms) + list(p.pc), z3.BoolVal(False), ex.f.qual,
                         fn.lineno, "ensures(False) must be refuted (a return path is reachable)", ex.inputs)
        can.expect_sat = True
        ex.obligations.append(can)
    for cl in cc.ensures:
        try:
            g = as_bool(ex.eval_spec(cl.expr, p))
        except Unsupported as e:
            raise Unsupported("in ensures %s of %s: %s" % (cl.name, cc.target, e))
        ex.emit(p, "post", cl.name, g, fn, cl.text())
    for exc, cl in cc.raises_iff:
        o = ex.old_state.fork()
        o.pc = list(p.pc)
        g = as_bool(ex.eval_spec(cl.expr, o))
        ex.emit(p, "noraise", exc, bnot(g), fn, "returns normally, so not (%s)" % cl.text())


def check_raise(ex, cc, s2, exc, fn):
    p = post_state(ex, s2)
    matched = False
    for e2, cl in cc.raises_iff:
        if e2 == exc or e2 == "Exception":   # raises_iff(Exception, c): refusal by whatever exception, iff c
            matched = True
            o = ex.old_state.fork()
            o.pc = list(p.pc)
            g = as_bool(ex.eval_spec(cl.expr, o))
            ex.emit(p, "raise", exc, g, fn, "raises %s only when %s" % (exc, cl.text()))
    if exc in cc.may_raise:
        matched = True
    if not matched:
        ex.emit(p, "raise", "unexpected_" + str(exc), False, fn, "no %s is raised (path must be infeasible)" % exc)


def verify_lemma(db, lm, engine_cls=Engine):
    """a lemma: statement over spec functions; optional induction on an int parameter"""
    ex = engine_cls(db, None, lm, prefix="lemma:" + lm.target)
    ex.local_cells = set()
    ex.local_iter_cells = set()
    ex.assignable_cells = set()
    st = State()
    for p in lm.params:
        ty = lm.types.get(p, "int")
        st.vars[p] = fresh_of_type(st, p, ty, ex.inputs)
    for cl in lm.requires:
        st.assume(as_bool(ex.eval_spec(cl.expr, st)))
    for u in lm.uses:
        ex.assume_lemma(u, st)
    ex.entry_vars = dict(st.vars)

    class _F:
        qual = "lemma:" + lm.target
        lineno = lm.lineno
    ex.f = _F()
    if lm.induction is None:
        for cl in lm.ensures:
            ex.emit(st, "lemma", cl.name, as_bool(ex.eval_spec(cl.expr, st)), None, cl.text())
    else:
        var, base = lm.induction
        basev = ex.eval_spec(base, st)
        n = st.vars[var]
        # base case
        b = st.fork()
        b.assume(n == basev)
        for cl in lm.ensures:
            ex.emit(b, "lemma-base", cl.name, as_bool(ex.eval_spec(cl.expr, b)), None, cl.text())
        # step: P(n-1) for n > base  ==> P(n)
        s = st.fork()
        s.assume(n > basev)
        prev = s.fork()
        prev.vars = dict(s.vars)
        prev.vars[var] = n - 1
        ok = True
        for cl in lm.requires:
            # the induction hypothesis is available only where the lemma's precondition holds for n-1
            pass
        hyp = []
        for cl in lm.ensures:
            hyp.append(zb(as_bool(ex.eval_spec(cl.expr, prev))))
        pre_prev = [zb(as_bool(ex.eval_spec(cl.expr, prev))) for cl in lm.requires]
        s.assume(z3.Implies(z3.And(*pre_prev) if pre_prev else z3.BoolVal(True), z3.And(*hyp)))
        for cl in lm.ensures:
            ex.emit(s, "lemma-step", cl.name, as_bool(ex.eval_spec(cl.expr, s)), None, cl.text())
    for ob in ex.obligations:
        have = set(h.get_id() for h in ob.hyps)
        ob.hyps = [a for a in ex.axioms if a.get_id() not in have] + ob.hyps
    return ex, ex.obligations


def verify_alias(db, cc, target=None):
    """frame obligations by may-alias abstract interpretation (pv/alias.py): one obligation per parameter root --
    every in-place effect on a buffer of that parameter lies inside the contract's assigns(...) set"""
    from . import alias
    target = target or cc.target
    an, params, res, fi = alias.analyse(cc, target)
    assigns = [a.strip("'\"") for a in (cc.assigns or [])]
    obs = []
    roots = [p for p in params]
    bad = {p: [] for p in roots}
    for e in an.effects:
        if alias.is_fresh(e.buf) or alias.allowed(e.buf, assigns):
            continue
        root = re.split(r"[.\[{]", e.buf)[0]
        bad.setdefault(root, []).append(e)
    for p in sorted(bad):
        effs = bad[p]
        if not effs and alias.allowed(p, assigns):
            continue   # the whole parameter is assignable: nothing to show
        definite = any(e.definite for e in effs)
        seen, lines = set(), []
        for e in effs:
            t = repr(e)
            if t not in seen:
                seen.add(t)
                lines.append(t)
        text = "frame: no in-place write reaches %s outside assigns(%s)" % (p, ", ".join(assigns))
        if lines:
            text += "  --  " + "; ".join(lines[:6])
        ob = Obligation("%s#post#frame.%s" % (target, p), "post", [], z3.BoolVal(not effs), target, fi.node.lineno, text, [])
        ob.forced = "unsat" if not effs else ("sat" if definite else "unknown")
        obs.append(ob)
    # which fields of self may share memory with a parameter on return (the machine keeps references to the caller's data)
    keep = cc.options.get("fields_aliasing_params")
    if keep is not None:
        selfv = an.top_args[0] if params and params[0] == "self" else None
        found = {}
        for fld, val in sorted((selfv.fields or {}).items()) if selfv is not None else []:
            arrp = [p for p in params[1:] if isinstance(cc.types.get(p), dict) or str(cc.types.get(p)) in ("ds", "dataset")
                    or "[" in str(cc.types.get(p))]
            shared = sorted(b for b in alias.reach(val) if not alias.is_fresh(b) and re.split(r"[.\[{]", b)[0] in arrp)
            if shared:
                found[fld] = shared
        extra = sorted(set(found) - set(keep))
        text = "fields of self that may share memory with a parameter on return are among %s" % (sorted(keep),)
        if extra:
            text += "  --  " + "; ".join("self.%s may alias %s" % (f, ", ".join(found[f][:3])) for f in extra)
        ob = Obligation("%s#post#aliases.self" % target, "post", [], z3.BoolVal(not extra), target, fi.node.lineno, text, [])
        ob.forced = "unsat" if not extra else "unknown"
        obs.append(ob)
    if an.visited == 0:
        raise Unsupported("alias analysis visited no statement of %s" % target)
    rec = fi.record()
    rec["no_fuzz"] = True
    rec["alias"] = {"statements_visited": an.visited, "functions_inlined": sorted(an.inlined),
                    "unmodelled_calls": sorted(set(an.unmodelled))[:40], "assumed": sorted(an.assumed),
                    "effects": len(an.effects), "writes_inside_assigns": sorted(set(e.buf for e in an.effects if not alias.is_fresh(e.buf) and alias.allowed(e.buf, assigns)))}
    return obs, rec


def scan_state_writes(pkg):
    """every statement INSIDE a function body of the package that writes state outliving the call: `global` statements, stores
    to / in-place methods on class objects (a class name, cls, type(self), self.__class__) and module-level names, mutable
    default arguments"""
    import glob
    import os
    out = []
    root = os.path.join(extract.REPO, *pkg.split("."))
    for f in sorted(glob.glob(os.path.join(root, "**", "*.py"), recursive=True)):
        rel = os.path.relpath(f, extract.REPO)
        tree = ast.parse(open(f, encoding="utf-8").read())
        modnames = set()
        for n in tree.body:
            if isinstance(n, (ast.Assign, ast.AnnAssign)):
                for tg in (n.targets if isinstance(n, ast.Assign) else [n.target]):
                    if isinstance(tg, ast.Name):
                        modnames.add(tg.id)
        classnames = {n.name for n in ast.walk(tree) if isinstance(n, ast.ClassDef)}

        def root_of(e):
            while isinstance(e, (ast.Attribute, ast.Subscript)):
                e = e.value
            if isinstance(e, ast.Call) and ast.unparse(e.func) == "type":
                return "type()"
            return e.id if isinstance(e, ast.Name) else None

        def shared(e):
            r = root_of(e)
            txt = ast.unparse(e)
            return (r in classnames or r in modnames or r == "cls" or r == "type()" or ".__class__" in txt)
        for fn in ast.walk(tree):
            if not isinstance(fn, (ast.FunctionDef, ast.AsyncFunctionDef)):
                continue
            local = {a.arg for a in fn.args.args + fn.args.kwonlyargs}
            for n in ast.walk(fn):
                if isinstance(n, (ast.Assign, ast.AnnAssign)):
                    for tg in (n.targets if isinstance(n, ast.Assign) else [n.target]):
                        if isinstance(tg, ast.Name):
                            local.add(tg.id)
            for d in fn.args.defaults + [x for x in fn.args.kw_defaults if x is not None]:
                if isinstance(d, (ast.List, ast.Dict, ast.Set)) or (isinstance(d, ast.Call) and ast.unparse(d.func) in ("list", "dict", "set")):
                    out.append({"file": rel, "function": fn.name, "line": fn.lineno, "kind": "mutable-default", "text": ast.unparse(d)[:60]})
            for n in ast.walk(fn):
                if isinstance(n, (ast.Global, ast.Nonlocal)) and isinstance(n, ast.Global):
                    out.append({"file": rel, "function": fn.name, "line": n.lineno, "kind": "global", "text": ", ".join(n.names)})
                elif isinstance(n, (ast.Assign, ast.AugAssign, ast.AnnAssign, ast.Delete)):
                    tgs = n.targets if isinstance(n, (ast.Assign, ast.Delete)) else [n.target]
                    for tg in tgs:
                        if isinstance(tg, (ast.Attribute, ast.Subscript)) and shared(tg) and root_of(tg) not in local:
                            out.append({"file": rel, "function": fn.name, "line": n.lineno, "kind": "store", "text": ast.unparse(tg)[:80]})
                elif isinstance(n, ast.Call) and isinstance(n.func, ast.Attribute) and n.func.attr in (
                        "append", "update", "extend", "pop", "clear", "setdefault", "add", "remove", "insert", "popitem", "discard", "sort", "reverse"):
                    if shared(n.func.value) and root_of(n.func.value) not in local:
                        out.append({"file": rel, "function": fn.name, "line": n.lineno, "kind": "inplace-call", "text": ast.unparse(n)[:80]})
    return out


def verify_scan(db, cc):
    """repository-wide finite data obligations: the clauses are evaluated over the list of state-writing statements found in
    the function bodies of the package (a loop-free evaluation over the complete source is a proof of the SYNTACTIC claim)"""
    import hashlib
    writes = scan_state_writes(cc.target)
    env = dict(db.constants)
    env["writes"] = writes
    obs = []
    for cl in cc.ensures:
        try:
            val = bool(eval(compile(ast.fix_missing_locations(ast.Expression(cl.expr)), cc.file, "eval"), dict(env, __builtins__=__builtins__)))
            extra = ""
        except Exception as e:
            val, extra = False, " [evaluation error: %r]" % (e,)
        if not val:
            extra += "  --  " + "; ".join("%(file)s:%(line)d %(function)s %(kind)s %(text)s" % w for w in writes)[:1500]
        obs.append(Obligation("%s#table#scan.%s" % (cc.target, cl.name), "post", [], z3.BoolVal(val), cc.target, cl.lineno,
                              cl.text() + extra, []))
    h = hashlib.sha256(json.dumps(writes, sort_keys=True).encode()).hexdigest()
    rec = {"qualname": cc.target + " (package scan)", "file": cc.target.replace(".", "/") + "/**/*.py", "line": 0, "sha256": h, "numba": False,
           "dropped": ["everything but the state-writing statements of function bodies"], "no_fuzz": True, "state_writes_found": len(writes)}
    return obs, rec


def verify_tables(db, cc):
    """finite data obligations: every clause is evaluated over the literal class-level assignments of the class, re-read
    from the source on every run.  A loop-free evaluation over the complete finite domain is a proof."""
    node, src, f, modname = extract.load_class(cc.target)
    env = dict(db.constants)
    import hashlib
    for st_ in node.body:
        if isinstance(st_, ast.Assign) and len(st_.targets) == 1 and isinstance(st_.targets[0], ast.Name):
            try:
                env[st_.targets[0].id] = ast.literal_eval(st_.value)
            except (ValueError, SyntaxError):
                pass
    env["methods"] = [m.name for m in node.body if isinstance(m, ast.FunctionDef)]
    env["src"] = {st_.targets[0].id: ast.unparse(st_.value) for st_ in node.body
                  if isinstance(st_, ast.Assign) and len(st_.targets) == 1 and isinstance(st_.targets[0], ast.Name)}
    env["bases"] = [ast.unparse(b) for b in node.bases]

    def applies_default(meth, key, const):
        """method `meth` has the top-level statement  if "<key>" not in cfg: cfg["<key>"] = self.<const>  and no other
        top-level statement of it stores cfg["<key>"] (nested stores under other conditions, e.g. string -> float conversions of a
        PRESENT value, are allowed)"""
        for m in node.body:
            if isinstance(m, ast.FunctionDef) and m.name == meth:
                hits, others = 0, 0
                for st_ in m.body:
                    if (isinstance(st_, ast.If) and isinstance(st_.test, ast.Compare) and len(st_.test.ops) == 1
                            and isinstance(st_.test.ops[0], ast.NotIn) and isinstance(st_.test.left, ast.Constant)
                            and st_.test.left.value == key and ast.unparse(st_.test.comparators[0]) == "cfg"
                            and st_.body and isinstance(st_.body[0], ast.Assign)
                            and ast.unparse(st_.body[0].targets[0]) == "cfg[%r]" % key
                            and ast.unparse(st_.body[0].value) == "self." + const):
                        hits += 1
                    elif (isinstance(st_, ast.Expr) and isinstance(st_.value, ast.Call)
                          and ast.unparse(st_.value.func) == "cfg.setdefault" and len(st_.value.args) == 2
                          and isinstance(st_.value.args[0], ast.Constant) and st_.value.args[0].value == key
                          and ast.unparse(st_.value.args[1]) == "self." + const):
                        hits += 1   # cfg.setdefault("<key>", self.<const>): the same meaning
                    elif isinstance(st_, ast.Assign) and any(ast.unparse(t) == "cfg[%r]" % key for t in st_.targets):
                        others += 1
                return hits == 1 and others == 0
        return False
    env["applies_default"] = applies_default
    obs = []
    for cl in cc.ensures:
        try:
            val = bool(eval(compile(ast.fix_missing_locations(ast.Expression(cl.expr)), cc.file, "eval"), dict(env, __builtins__=__builtins__)))
        except Exception as e:  # a clause that cannot be evaluated is a failed obligation, with the reason attached
            val = False
            cl = type(cl)(cl.name, cl.expr, cl.lineno, cl.file)
            cl.err = repr(e)
        ob = Obligation("%s#table#%s" % (cc.target, cl.name), "post", [], z3.BoolVal(val), cc.target, cl.lineno,
                        cl.text() + (" [evaluation error: %s]" % getattr(cl, "err", "") if getattr(cl, "err", None) else ""), [])
        obs.append(ob)
    if cc.domains:
        obs += schema_domain_obligations(db, cc, node)
    seg = ast.get_source_segment(src, node) or ""
    rec = {"qualname": cc.target, "file": f.replace(extract.REPO + "/", ""), "line": node.lineno,
           "sha256": hashlib.sha256(seg.encode()).hexdigest(), "numba": False,
           "dropped": ["everything but the literal class-level assignments and the method names"]
           + (["schema domains: everything but the json_checker schema entries And(<type>, <lambda>) of the class"] if cc.domains else []),
           "no_fuzz": True}
    return obs, rec


def schema_entries(node, key):
    """every expression the class body stores under schema key `key`: values of dict literals and of <name>["key"] = ... stores"""
    out = []
    for n in ast.walk(node):
        if isinstance(n, ast.Dict):
            for k_, v_ in zip(n.keys, n.values):
                if isinstance(k_, ast.Constant) and k_.value == key:
                    out.append(v_)
        elif isinstance(n, ast.Assign) and len(n.targets) == 1 and isinstance(n.targets[0], ast.Subscript) \
                and isinstance(n.targets[0].slice, ast.Constant) and n.targets[0].slice.value == key \
                and isinstance(n.targets[0].value, ast.Name) and "schema" in n.targets[0].value.id:
            out.append(n.value)
    return [v_ for v_ in out if isinstance(v_, ast.Call) and isinstance(v_.func, ast.Name) and v_.func.id in ("And", "Or")]


def schema_domain_obligations(db, cc, node, engine_cls=Engine):
    """for all x of the declared type:  <predicate of the schema entry>(x)  <=>  <documented domain>(x).
    json_checker is assumed: And(T, f) accepts x iff isinstance(x, T) and bool(f(x))."""
    obs = []
    for (key, ty, spec_lambda, lineno) in cc.domains:
        oid = "%s#table#domain.%s" % (cc.target, key)
        text = "schema[%r] == And(%s, f) with f(x) <=> %s" % (key, ty, ast.unparse(spec_lambda.body))
        entries = schema_entries(node, key)
        shape_ok = (len(entries) == 1 and entries[0].func.id == "And" and len(entries[0].args) == 2
                    and isinstance(entries[0].args[0], ast.Name) and entries[0].args[0].id == ty
                    and isinstance(entries[0].args[1], ast.Lambda) and len(entries[0].args[1].args.args) == 1
                    and isinstance(spec_lambda, ast.Lambda) and len(spec_lambda.args.args) == 1)
        if not shape_ok:
            obs.append(Obligation(oid, "post", [], z3.BoolVal(False), cc.target, lineno,
                                  text + " [the class has %d schema entr%s for this key%s]"
                                  % (len(entries), "y" if len(entries) == 1 else "ies",
                                     "" if len(entries) != 1 else ": " + ast.unparse(entries[0])), []))
            continue
        code_lambda = entries[0].args[1]
        ex = engine_cls(db, None, cc, prefix=cc.target)
        ex.local_cells, ex.local_iter_cells, ex.assignable_cells = set(), set(), set()

        class _F:
            qual = cc.target
            lineno = node.lineno
        ex.f = _F()
        st = State()
        x = fresh_of_type(st, "x", ty, ex.inputs)
        ex.entry_vars = {"x": x}
        try:
            st.vars = {code_lambda.args.args[0].arg: x}
            was = ex.spec
            ex.spec = False
            got = as_bool(ex.eval(code_lambda.body, st))      # python semantics of the real predicate (truthiness of its value)
            ex.spec = was
            st.vars = {spec_lambda.args.args[0].arg: x}
            want = as_bool(ex.eval_spec(spec_lambda.body, st))
        except Unsupported as e:
            obs.append(Obligation(oid, "post", [], z3.BoolVal(False), cc.target, lineno, text + " [not evaluated: %s]" % e, []))
            continue
        ob = Obligation(oid, "post", list(ex.axioms) + list(st.pc), zb(got) == zb(want), cc.target, lineno,
                        text + "   (code: %s)" % ast.unparse(code_lambda.body), ex.inputs)
        obs.append(ob)
        obs += [o for o in ex.obligations]   # obligations raised while evaluating the real predicate (division by zero ...)
    return obs
