"""Concrete side (runs under /venv/bin/python, never needs z3): evaluate the SAME contract text on real values,
replay solver witnesses on the real function, and serve the bounded stand-in.

Contract clauses are Python expressions; here they are compiled and evaluated with numpy values:
  all(... for i in range(...)) / any(...)   -> python builtins
  implies(a, b)                             -> (not a) or b      (lazy, by AST rewrite)
  old(e)                                    -> value of e evaluated before the call (by AST rewrite)
  eq(a, b)                                  -> nan-aware equality with a small relative tolerance
  @spec functions                           -> compiled as ordinary (recursive) python functions
"""
import ast
import copy
import glob
import importlib
import json
import math
import os
import sys

import numpy as np

HERE = os.path.dirname(os.path.dirname(os.path.abspath(__file__)))
CONTRACT_DIR = os.path.join(HERE, "contracts")
sys.setrecursionlimit(100000)

TOL = 1e-5


def _f(x):
    return float(x)


def eq(a, b):
    if isinstance(a, (tuple, list)) and isinstance(b, (tuple, list)):
        return len(a) == len(b) and all(eq(x, y) for x, y in zip(a, b))
    if isinstance(a, (str, bytes)) or isinstance(b, (str, bytes)) or a is None or b is None:
        return a == b
    if isinstance(a, np.ndarray) or isinstance(b, np.ndarray):
        a, b = np.asarray(a), np.asarray(b)
        return a.shape == b.shape and all(eq(x, y) for x, y in zip(a.ravel().tolist(), b.ravel().tolist()))
    fa, fb = _f(a), _f(b)
    if math.isnan(fa) or math.isnan(fb):
        return math.isnan(fa) and math.isnan(fb)
    if math.isinf(fa) or math.isinf(fb):
        return fa == fb
    return abs(fa - fb) <= TOL * max(1.0, abs(fa), abs(fb))


def isnan(x):
    try:
        return math.isnan(float(x))
    except (TypeError, ValueError):
        return False


def isfinite(x):
    return math.isfinite(float(x))


def isinf(x):
    return math.isinf(float(x))


def bit(x, k):
    return (int(x) >> k) & 1 == 1


def iff(a, b):
    return bool(a) == bool(b)


def sum32(x):
    return bin(int(x) & 0xFFFFFFFF).count("1")


def tok(s):
    return s


def trunc(x):
    return int(x)


BASE_NS = {"eq": eq, "isnan": isnan, "isfinite": isfinite, "isinf": isinf, "bit": bit, "iff": iff, "tok": tok, "sum32": sum32,
           "floor": math.floor, "ceil": math.ceil, "trunc": trunc, "np": np, "math": math, "len": len, "abs": abs,
           "min": min, "max": max, "int": int, "float": float, "range": range, "all": all, "any": any, "sum": sum,
           "bool": bool, "rint": lambda x: float(np.rint(x)), "array_of": None}


_GHOST_MEMO = {}


def array_of(f, *shape):
    """ghost array of a specification: the array whose cells are f(i, j, ...).  Memoised for the duration of one contract
    evaluation (the same lambda is met once per quantified pixel); run_contract clears the memo."""
    key = (f.__code__, tuple(int(s) for s in shape), tuple(id(c.cell_contents) for c in (f.__closure__ or ())))
    if key not in _GHOST_MEMO:
        out = np.empty(shape, dtype=np.float64)
        for idx in np.ndindex(*[int(s) for s in shape]):
            out[idx] = f(*idx)
        _GHOST_MEMO[key] = out
    return _GHOST_MEMO[key]


BASE_NS["array_of"] = array_of


class _Rewrite(ast.NodeTransformer):
    def __init__(self):
        self.olds = []

    def visit_Call(self, n):
        self.generic_visit(n)
        if isinstance(n.func, ast.Name) and n.func.id == "implies" and len(n.args) == 2:
            return ast.BoolOp(op=ast.Or(), values=[ast.UnaryOp(op=ast.Not(), operand=n.args[0]), n.args[1]])
        if isinstance(n.func, ast.Name) and n.func.id == "old" and len(n.args) == 1:
            k = len(self.olds)
            self.olds.append(n.args[0])
            return ast.Subscript(value=ast.Name(id="__old__", ctx=ast.Load()), slice=ast.Constant(k), ctx=ast.Load())
        return n


def compile_clause(expr):
    rw = _Rewrite()
    e = rw.visit(copy.deepcopy(expr))
    e = ast.fix_missing_locations(ast.Expression(e))
    olds = [compile(ast.fix_missing_locations(ast.Expression(copy.deepcopy(o))), "<old>", "eval") for o in rw.olds]
    return compile(e, "<clause>", "eval"), olds


class RtContracts:
    """contract database for the concrete side (same files, same parser as the prover)"""
    def __init__(self):
        sys.path.insert(0, HERE)
        from pv import contracts as C  # pure-stdlib module
        self.db = C.ContractDB()
        self.ns = dict(BASE_NS)
        for name, sp in self.db.specs.items():
            fn = copy.deepcopy(sp.fn)
            fn.decorator_list = []
            fn.returns = None
            rw = _Rewrite()
            fn = rw.visit(fn)
            mod = ast.fix_missing_locations(ast.Module(body=[fn], type_ignores=[]))
            exec(compile(mod, sp.file, "exec"), self.ns)

    def contract(self, target):
        return self.db.contracts.get(target) or self.db.assumed.get(target)


def resolve(qual):
    parts = qual.split(".")
    for i in range(len(parts), 0, -1):
        try:
            mod = importlib.import_module(".".join(parts[:i]))
        except ImportError:
            continue
        obj = mod
        for p in parts[i:]:
            obj = getattr(obj, p) if not isinstance(obj, type) else obj.__dict__.get(p, getattr(obj, p))
        if isinstance(obj, property):
            obj = obj.fget
        if isinstance(obj, (staticmethod, classmethod)):
            obj = obj.__func__
        return obj
    raise ImportError(qual)


NP_DT = {"f32": np.float32, "f64": np.float64, "f": np.float64, "r32": np.float32, "r64": np.float64, "i16": np.int16, "i32": np.int32, "i64": np.int64,
         "i": np.int64, "u16": np.uint16, "u32": np.uint32, "u8": np.uint8, "bool": np.bool_}


def _num(x):
    if x == "nan":
        return float("nan")
    if x == "inf":
        return float("inf")
    if x == "-inf":
        return float("-inf")
    return x


def build_dataset(w):
    import xarray as xr

    def arr(x):
        data = [(_num(y) if y is not None else 0) for y in x["data"]]
        return np.array(data, dtype=x["dtype"]).reshape(x["shape"])
    ds = xr.Dataset({k: (v["dims"], arr(v["value"])) for k, v in w["vars"].items()},
                    coords={k: arr(v) for k, v in w["coords"].items()})
    ds.attrs = dict(w.get("attrs", {}))
    return ds


def build_arg(ty, w):
    """witness json -> concrete python/numpy argument for a declared type"""
    if isinstance(w, dict) and w.get("__dataset__"):
        return build_dataset(w)
    if isinstance(w, dict) and "__namespace__" in w:
        import types as _t
        return _t.SimpleNamespace(**w["__namespace__"])
    if isinstance(ty, dict) and "@attrs" in ty:
        import types as _t
        o = _t.SimpleNamespace(**{k: build_arg(t, w["@attrs"][k]) for k, t in ty["@attrs"].items()})
        return o
    if isinstance(ty, dict):
        return {k: build_arg(t, w[k]) for k, t in ty.items()}
    if isinstance(ty, (list, tuple)):
        return [build_arg(t, x) for t, x in zip(ty, w)] if isinstance(ty, list) else tuple(build_arg(t, x) for t, x in zip(ty, w))
    if ty in ("int",):
        return int(w)
    if ty == "float":
        return float(_num(w))
    if ty == "bool":
        return bool(w)
    if ty == "str":
        return w
    if ty in ("u16", "u32", "u8"):
        return NP_DT[ty](int(w))
    if "[" in ty:
        base, dims = ty.split("[", 1)
        dims = dims.rstrip("]")
        if dims.strip().isdigit():
            return np.array([_num(x) if x is not None else 0.0 for x in w], dtype=NP_DT[base])
        data = [(_num(x) if x is not None else 0) for x in w["data"]]
        return np.array(data, dtype=NP_DT[base]).reshape(w["shape"])
    raise ValueError("cannot build argument of type %r" % (ty,))


def run_contract(rt, cc, func, args_by_name, call=None):
    _GHOST_MEMO.clear()
    """evaluate requires, call, evaluate ensures/raises.  -> dict(pre_ok, raised, violated:[clause names], result)"""
    ns = dict(rt.ns)
    ns.update(args_by_name)
    out = {"pre_ok": True, "pre_failed": [], "raised": None, "violated": [], "errors": []}
    for p, ty in cc.types.items():
        if isinstance(ty, str) and ty.startswith("r") and "[" in ty and p in args_by_name:
            if not np.all(np.isfinite(args_by_name[p])):  # declared invariant of finite-real arrays
                out["pre_ok"] = False
                out["pre_failed"].append("finite:" + p)
    for cl in cc.requires:
        code, _ = compile_clause(cl.expr)
        try:
            if not eval(code, ns):
                out["pre_ok"] = False
                out["pre_failed"].append(cl.name)
        except Exception as e:
            out["errors"].append("requires %s: %r" % (cl.name, e))
            out["pre_ok"] = False  # a precondition that cannot be evaluated on this input does not hold for it
            out["pre_failed"].append(cl.name)
    if not out["pre_ok"]:
        return out
    ens = [(cl, compile_clause(cl.expr)) for cl in cc.ensures]
    rai = [(exc, cl, compile_clause(cl.expr)) for exc, cl in cc.raises_iff]
    olds = {}
    for cl, (code, ol) in ens:
        vals = []
        for o in ol:
            try:
                vals.append(copy.deepcopy(eval(o, ns)))
            except Exception as e:
                vals.append(None)
        olds[id(cl)] = vals
    pre_ns = {k: copy.deepcopy(v) if isinstance(v, (np.ndarray, list, dict)) else v for k, v in args_by_name.items()}
    try:
        result = call() if call is not None else func(*[args_by_name[p] for p in cc.params if p in args_by_name])
        if isinstance(result, tuple) and type(result).__name__ == "Window":
            pass
    except BaseException as e:  # SystemExit included
        out["raised"] = type(e).__name__
        out["raise_msg"] = str(e)[:300]
        result = None
    if type(result).__name__ == "Margins" and hasattr(result, "astuple"):
        result = ("Margins",) + tuple(result.astuple())
    if type(result).__name__ == "Window" and hasattr(result, "col_off"):
        result = ("Window", result.col_off, result.row_off, result.width, result.height)
    out["result"] = summarize(result)
    if out["raised"]:
        ok = out["raised"] in cc.may_raise
        for exc, cl, (code, _) in rai:
            if exc == out["raised"] or exc == "Exception":
                ns2 = dict(rt.ns)
                ns2.update(pre_ns)
                try:
                    if eval(code, ns2):
                        ok = True
                    else:
                        out["violated"].append("raise:" + exc)
                        ok = True
                except Exception as e:
                    out["errors"].append("raises %s: %r" % (exc, e))
                    ok = True
        if not ok:
            out["violated"].append("raise:unexpected_" + out["raised"])
        return out
    ns["result"] = result
    for exc, cl, (code, _) in rai:
        ns2 = dict(rt.ns)
        ns2.update(pre_ns)
        try:
            if eval(code, ns2):
                out["violated"].append("noraise:" + exc)
        except Exception as e:
            out["errors"].append("raises %s: %r" % (exc, e))
    for cl, (code, ol) in ens:
        ns["__old__"] = olds[id(cl)]
        try:
            if not eval(code, ns):
                out["violated"].append("post:" + cl.name)
        except Exception as e:
            out["errors"].append("ensures %s: %r" % (cl.name, e))
    return out


def summarize(r):
    if isinstance(r, np.ndarray):
        return {"shape": list(r.shape), "data": [None if (isinstance(x, float) and x != x) else x for x in r.ravel().tolist()[:64]]}
    if isinstance(r, (tuple, list)):
        return [summarize(x) for x in r]
    if isinstance(r, (np.generic,)):
        r = r.item()
    if isinstance(r, float) and r != r:
        return "nan"
    if isinstance(r, (int, float, str, bool)) or r is None:
        return r
    return repr(r)[:200]


def replay(path):
    """replay a witness file on the real code; exit status 0 = violation reproduced, 1 = not reproduced"""
    rec = json.load(open(path))
    rt = RtContracts()
    cc = rt.contract(rec["contract"])
    func = resolve(rec["function"])
    args = {}
    for p in cc.params:
        if p in ("self", "cls") and p not in cc.types:
            args[p] = None
            continue
        ty = cc.types[p]
        if isinstance(ty, str) and ty.startswith("func:"):
            args[p] = resolve(cc.options.get("replay_" + p, ty[5:]))
            continue
        w = rec["witness"][p]
        if isinstance(ty, str) and "[" in ty and isinstance(w, dict) and "data" not in w:
            raise ValueError("witness for %s has no data" % p)
        args[p] = build_arg(ty, w)
    r = run_contract(rt, cc, func, args)
    rec["replay"] = r
    rec["confirmed"] = bool(r["violated"]) and r["pre_ok"]
    json.dump(rec, open(path, "w"), indent=1, default=str)
    return rec


if __name__ == "__main__":
    rec = replay(sys.argv[1])
    print(json.dumps({"confirmed": rec["confirmed"], "replay": rec["replay"]}, default=str)[:2000])
    sys.exit(0 if rec["confirmed"] else 1)


# ---------------------------------------------------------------------------------------------------------------
# bounded contract evaluation: the real function on generated inputs, the same contract evaluated concretely
# ---------------------------------------------------------------------------------------------------------------

FLOAT_VALUES = [0.0, 1.0, 2.0, -1.0, 3.0, 0.5, 5.0, float("nan")]


def _strings_for(cc, p):
    out = []
    for cl in cc.requires:
        for n in ast.walk(cl.expr):
            if isinstance(n, ast.Compare) and isinstance(n.left, ast.Name) and n.left.id == p:
                for c in n.comparators:
                    if isinstance(c, ast.Constant) and isinstance(c.value, str):
                        out.append(c.value)
    return out or ["a"]


def default_sample(cc, rng):
    args = {}
    for p in cc.params:
        if p in ("self", "cls") and p not in cc.types:
            args[p] = None
            continue
        ty = cc.types[p]
        if isinstance(ty, str) and ty.startswith("func:"):
            args[p] = resolve(cc.options.get("replay_" + p, ty[5:]))
        elif isinstance(ty, dict) and "@attrs" in ty:
            import types as _t

            def gen_a(t):
                if isinstance(t, (list, tuple)):
                    return tuple(gen_a(x) for x in t)
                return int(rng.integers(0, 12)) if t == "int" else float(rng.integers(1, 9)) / 2.0
            args[p] = _t.SimpleNamespace(**{k: gen_a(t) for k, t in ty["@attrs"].items()})
        elif ty == "opaque":
            args[p] = None
        elif isinstance(ty, (dict, list, tuple)):
            def gen(t):
                if isinstance(t, dict):
                    return {k: gen(x) for k, x in t.items()}
                if isinstance(t, (list, tuple)):
                    return [gen(x) for x in t]
                if t == "int":
                    return int(rng.integers(-3, 12))
                raise ValueError("no default sampler for %r" % (t,))
            args[p] = gen(ty)
        elif ty == "int":
            args[p] = int(rng.integers(-3, 9))
        elif ty == "float":
            args[p] = float(FLOAT_VALUES[rng.integers(0, len(FLOAT_VALUES))])
        elif ty == "bool":
            args[p] = bool(rng.integers(0, 2))
        elif ty == "str":
            ch = _strings_for(cc, p)
            args[p] = ch[rng.integers(0, len(ch))]
        elif ty in ("u16", "u32", "u8"):
            args[p] = NP_DT[ty](int(rng.integers(0, 2 ** int(ty[1:]))))
        elif "[" in ty:
            base, dims = ty.split("[", 1)
            dims = dims.rstrip("]")
            if dims.strip().isdigit():
                k = int(dims)
                args[p] = np.array([FLOAT_VALUES[rng.integers(0, len(FLOAT_VALUES))] for _ in range(k)], dtype=NP_DT[base])
            else:
                nd = dims.count(":")
                shape = tuple(int(rng.integers(1, 5)) for _ in range(nd))
                if base[0] == "r":
                    args[p] = rng.integers(-3, 9, size=shape).astype(NP_DT[base])
                elif base[0] == "f":
                    a = np.array([FLOAT_VALUES[i] for i in rng.integers(0, len(FLOAT_VALUES), size=int(np.prod(shape)))])
                    args[p] = a.astype(NP_DT[base]).reshape(shape)
                elif base == "bool":
                    args[p] = rng.integers(0, 2, size=shape).astype(bool)
                else:
                    args[p] = rng.integers(0, 4, size=shape).astype(NP_DT[base])
        else:
            raise ValueError("no default sampler for type %r" % (ty,))
    return args


def fuzz(rt, target, n, seed, contract=None, time_budget=30.0):
    """-> dict(evaluations, accepted, violations=[...first few...])"""
    import time as _t
    cc = rt.contract(contract or target)
    func = resolve(target)
    rng = np.random.default_rng(seed)
    sampler = None
    key = contract or target
    if key in rt.db.samplers:
        fn, f = rt.db.samplers[key]
        fn = copy.deepcopy(fn)
        fn.decorator_list = []
        ns = dict(rt.ns)
        exec(compile(ast.fix_missing_locations(ast.Module(body=[fn], type_ignores=[])), f, "exec"), ns)
        sampler = ns[fn.name]
    out = {"target": target, "evaluations": 0, "accepted": 0, "violations": [], "errors": []}
    t0 = _t.time()
    for i in range(n):
        if _t.time() - t0 > time_budget:
            break
        try:
            args = sampler(rng) if sampler else default_sample(cc, rng)
        except Exception as e:
            out["errors"].append("sampler: %r" % (e,))
            break
        out["evaluations"] += 1
        shown = {k: summarize_full(v) for k, v in args.items() if not callable(v)}
        r = run_contract(rt, cc, func, args)
        if not r["pre_ok"]:
            continue
        out["accepted"] += 1
        if r["errors"] and len(out["errors"]) < 3:
            out["errors"] += r["errors"][:2]
        if r["violated"]:
            if len(out["violations"]) < 3:
                out["violations"].append({"inputs": shown, "violated": r["violated"], "raised": r["raised"], "result": r["result"]})
    return out


def summarize_full(v):
    if type(v).__name__ == "SimpleNamespace":
        return {"__namespace__": {k: summarize_full(x) for k, x in vars(v).items()}}
    if isinstance(v, dict):
        return {k: summarize_full(x) for k, x in v.items()}
    if hasattr(v, "data_vars") and hasattr(v, "coords"):  # xarray.Dataset
        return {"__dataset__": True,
                "vars": {k: {"dims": list(v[k].dims), "value": summarize_full(np.asarray(v[k].data))} for k in v.data_vars},
                "coords": {k: summarize_full(np.asarray(v.coords[k].data)) for k in v.coords},
                "attrs": {k: summarize_full(x) if isinstance(x, (np.ndarray, np.generic, float)) else (x if isinstance(x, (int, str, bool, type(None))) else repr(x)) for k, x in v.attrs.items()}}
    if isinstance(v, np.ndarray):
        return {"dtype": str(v.dtype), "shape": list(v.shape),
                "data": ["nan" if (isinstance(x, float) and x != x) else x for x in v.ravel().tolist()]}
    if isinstance(v, np.generic):
        v = v.item()
    if isinstance(v, float) and v != v:
        return "nan"
    return v
