"""Symbolic values other than floats: arrays, objects, functions, typed fresh symbols."""
import itertools
import re
import z3
from . import fl
from .fl import SFloat, FK

_counter = itertools.count()
I = z3.IntSort()


class Unsupported(Exception):
    pass


def fresh_name(base):
    return "%s!%d" % (base, next(_counter))


SYMLOG = []  # every fresh constant created (used by the prange race obligations to prime a second iteration)


def _log(c):
    SYMLOG.append(c)
    return c


def fresh_int(base):
    return _log(z3.Int(fresh_name(base)))


def fresh_bool(base):
    return _log(z3.Bool(fresh_name(base)))


def fresh_real(base):
    return _log(z3.Real(fresh_name(base)))


def fresh_bv(base, w):
    return _log(z3.BitVec(fresh_name(base), w))


def fresh_float(base):
    n = fresh_name(base)
    return SFloat(_log(z3.Const(n + ".k", FK)), _log(z3.Real(n + ".v")))


# dtype codes: 'f' float, 'i' int, 'b' bool, 'u16'/'u32' bitvectors
def dtype_sort(dt):
    if dt in ("i", "s"):   # "s": array of strings, each an interned token (only == / != are supported on strings)
        return z3.IntSort()
    if dt == "b":
        return z3.BoolSort()
    if dt == "r":
        return z3.RealSort()
    if dt.startswith("u"):
        return z3.BitVecSort(int(dt[1:]))
    raise ValueError(dt)


def fresh_array_term(base, nd, sort):
    """z3 multi-index arrays; the cvc5 export rewrites them into nested SMT-LIB arrays (pv.solve.nest_arrays)"""
    return _log(z3.Array(fresh_name(base), *([I] * nd), sort))


def sel(a, idx):
    return z3.Select(a, *[i if z3.is_expr(i) else z3.IntVal(i) for i in idx])


def sto(a, idx, v):
    return z3.Store(a, *([i if z3.is_expr(i) else z3.IntVal(i) for i in idx] + [v]))


class SArr:
    """handle on a heap cell: (cell id, dtype, shape, fixed leading indices for row views)"""
    __slots__ = ("cell", "dt", "shape", "fixed", "name", "snap")

    def __init__(self, cell, dt, shape, fixed=(), name=None, snap=None):
        self.cell = cell
        self.dt = dt
        self.shape = tuple(shape)
        self.fixed = tuple(fixed)
        self.name = name
        self.snap = snap  # frozen contents (old(...) values): reads ignore the current heap

    @property
    def ndim(self):
        return len(self.shape) - len(self.fixed)

    def view_shape(self):
        return self.shape[len(self.fixed):]

    def __repr__(self):
        return "SArr(%s,%s,%s)" % (self.cell, self.dt, self.shape)


class SList:
    """python list / small literal array of values with concrete length (mutable through the heap is not needed)"""
    __slots__ = ("items", "dt")

    def __init__(self, items, dt=None):
        self.items = list(items)
        self.dt = dt


class SObj:
    """object with concrete attribute names (self, datasets...)"""
    def __init__(self, name, attrs=None, cls=None):
        self.name = name
        self.attrs = dict(attrs or {})
        self.cls = cls


class SFunc:
    """callable value: a function with a contract (by target name), or a python handler"""
    def __init__(self, target=None, handler=None, name=None):
        self.target = target
        self.handler = handler
        self.name = name or target


class SNs:
    """namespace marker (np, math, cst, ...) resolved by dotted name"""
    def __init__(self, path):
        self.path = path


class SStr:
    """symbolic string drawn from an interned token universe (only == / != are supported)"""
    __slots__ = ("tok",)

    def __init__(self, tok):
        self.tok = tok


_interned = {}
_STRCAT = None


def str_cat(a, b):
    """a + b on strings: concrete when both are, else an uninterpreted function of the two tokens (only congruence is known)"""
    global _STRCAT
    if isinstance(a, str) and isinstance(b, str):
        return a + b
    if _STRCAT is None:
        _STRCAT = z3.Function("strcat", z3.IntSort(), z3.IntSort(), z3.IntSort())
    ta = a.tok if isinstance(a, SStr) else z3.IntVal(intern_str(a))
    tb = b.tok if isinstance(b, SStr) else z3.IntVal(intern_str(b))
    return SStr(_STRCAT(ta, tb))


def intern_str(s):
    if s not in _interned:
        _interned[s] = len(_interned) + 1
    return _interned[s]


def interned_strings():
    return dict(_interned)


_ARR_RE = re.compile(r"^(f32|f64|f|r32|r64|i16|i32|i64|i|u16|u32|u8|bool|str)\[(.*)\]$")


def parse_type(t):
    """-> ('int'|'float'|'bool'|'str'|'bv',w) | ('arr', dt, ndim) | ('flist', n) | ('func', target) | ('obj',) | ('tuple', [...])"""
    if isinstance(t, dict):
        if "@attrs" in t:
            return ("objattrs", t["@attrs"])
        if "dataarray" in t:
            return ("da", t)
        if "vars" in t or "coords" in t or "attrs" in t or "sizes" in t or "dims" in t:
            return ("ds", t)
        return ("dict", t)
    if isinstance(t, (tuple, list)):
        return ("tuple", [parse_type(x) for x in t])
    if t in ("int", "float", "bool", "str", "obj", "none", "opaque", "where1d", "where2d", "margins"):
        return (t,)
    if t in ("u16", "u32", "u8"):
        return ("bv", int(t[1:]))
    if t.startswith("func:"):
        return ("func", t[5:])
    m = _ARR_RE.match(t)
    if m:
        base, dims = m.group(1), m.group(2)
        if base in ("f32", "f64", "f") and dims.strip().isdigit():
            return ("flist", int(dims))
        if base in ("i64", "i") and dims.strip().isdigit():
            return ("ilist", int(dims))   # a python list of that many ints
        nd = dims.count(":")
        dt = ("s" if base == "str" else "f" if base[0] == "f" else "r" if base[0] == "r" else "b" if base == "bool"
              else base if base in ("u16", "u32") else "i")
        return ("arr", dt, nd, base)
    raise ValueError("bad type " + repr(t))
