"""Sliding-window layer: as_strided window views, np.array_split with a stop different from the axis extent, window
reductions (np.nanmedian over the two window axes) and user-declared per-window functionals as uninterpreted functions of
(array contents, window origin, window extent).

Assumed contracts (listed in the evidence of the properties that use them):
  * np.lib.stride_tricks.as_strided(a, shape=(H-h+1, W-w+1, h, w), strides=a.strides + a.strides)[i, j, p, q] is a[i+p, j+q]
    (a view; byte offset i*s0 + j*s1 + p*s0 + q*s1);
  * np.array_split(a, np.arange(c, n, c), axis) yields len(arange)+1 views a[min(jc, L) : min((j+1)c, L)], the last one up to L
    (python slice clipping), L the extent of the axis;
  * np.nanmedian over a window is NaN iff every element is NaN, otherwise a non-NaN value lying between two non-NaN
    elements of the window -- and a function of the window contents only.
"""
import ast
import z3
from . import fl
from .vals import SArr, SFunc, Unsupported, fresh_name, I, SObj
from .lazy import LArr, SChunks, shape_of, dtype_of, elem, base_of, frozen, zi, _Lit, _mentions
from .state import array_read
from .expr import to_int, simp_bool, zb


class Stride:
    """the stride of one axis of an array (a.strides[k])"""
    def __init__(self, arr, axis):
        self.arr, self.axis = arr, axis


class GChunks(SChunks):
    """array_split(a, arange(c, n, c), axis) where n need not be the extent L of the axis"""
    def __init__(self, arr, axis, size, n, extent):
        SChunks.__init__(self, arr, axis, size, n)
        self.extent = extent

    def chunk(self, j):
        a, ax, c, L = self.arr, self.axis, self.size, zi(self.extent)
        jz = zi(j)
        lo0 = jz * c
        lo = z3.If(lo0 < L, lo0, L)
        hi0 = lo0 + c
        hi = z3.If(jz == self.count - 1, L, z3.If(hi0 < L, hi0, L))
        shape = list(shape_of(a))
        shape[ax] = z3.simplify(hi - lo)

        def get(idx, st, a=a, ax=ax, lo=lo):
            idx = list(idx)
            idx[ax] = zi(idx[ax]) + lo
            return elem(a, idx, st)
        base = None
        b = base_of(a)
        if b is not None:
            arr0, mp = b

            def mp2(idx, mp=mp, ax=ax, lo=lo):
                idx = list(idx)
                idx[ax] = zi(idx[ax]) + lo
                return mp(idx)
            base = (arr0, mp2)
        return LArr(dtype_of(a), shape, get, base, name="chunk")


class WindowMixin:
    # ------------------------------------------------------------------------------------------------ strides / as_strided
    def e_Attribute(self, n, st):
        if n.attr == "strides":
            base = self.eval(n.value, st)
            if isinstance(base, (SArr, LArr)):
                return tuple(Stride(base, k) for k in range(len(shape_of(base))))
            return super().e_Attribute(ast.Attribute(value=_Lit(base), attr=n.attr, ctx=n.ctx, lineno=n.lineno, col_offset=0), st)
        return super().e_Attribute(n, st)

    def b_numpy_lib_stride_tricks_as_strided(self, args, kw, st, n):
        """as_strided(a, shape=S, strides=T) where every entry of T is the stride of an axis of `a` itself: element
        [i_1 .. i_m] is a[idx] with idx[axis] = sum of the i_j whose stride is that axis's (byte offset sum_j i_j * stride_j)"""
        a = args[0]
        shp = kw.get("shape", args[1] if len(args) > 1 else None)
        strides = kw.get("strides", args[2] if len(args) > 2 else None)
        if not (isinstance(a, (SArr, LArr)) and isinstance(shp, tuple) and isinstance(strides, tuple) and len(shp) == len(strides)
                and all(isinstance(t, Stride) and t.arr is a for t in strides)):
            raise Unsupported("as_strided form: strides must be strides of the array itself (line %d)" % n.lineno)
        nd = len(shape_of(a))
        dims = [zi(to_int(x)) for x in shp]
        axes = [t.axis for t in strides]
        if not self.spec:
            # memory safety of the view: on every axis the largest reachable index stays inside the array
            conds = [d >= 0 for d in dims]
            empty = z3.Or(*[d == 0 for d in dims])
            for ax in range(nd):
                js = [j for j, k in enumerate(axes) if k == ax]
                if js:
                    reach = sum([dims[j] - 1 for j in js][1:], dims[js[0]] - 1)
                    conds.append(z3.Or(empty, reach < zi(shape_of(a)[ax])))
            g = simp_bool(z3.And(*conds))
            if g is not True:
                self.emit(st, "bounds", "as_strided.L%d" % n.lineno, g, n,
                          "as_strided windows stay inside the base array (no out-of-bounds memory is exposed)")

        def mp(ix, axes=axes, nd=nd):
            out = [z3.IntVal(0)] * nd
            for j, k in enumerate(axes):
                out[k] = out[k] + zi(ix[j])
            return [z3.simplify(t) if z3.is_expr(t) else t for t in out]

        def get(ix, st2, a=a, mp=mp):
            return elem(a, mp(ix), st2)
        base = None
        b = base_of(a)
        if b is not None:
            base = (b[0], lambda ix, b=b, mp=mp: b[1](mp(ix)))
        return LArr(dtype_of(a), [z3.simplify(d) for d in dims], get, base, name="windows")

    # ------------------------------------------------------------------------------------------------------- array_split
    def b_numpy_array_split(self, args, kw, st, n):
        a, sections = args[0], args[1]
        axis = kw.get("axis", args[2] if len(args) > 2 else 0)
        ar = getattr(sections, "arange", None)
        if isinstance(axis, int) and ar is not None and isinstance(a, (SArr, LArr)):
            lo, hi, step = ar
            if isinstance(lo, int) and isinstance(step, int) and lo == step:
                dim = shape_of(a)[axis]
                if simp_bool(zi(hi) == zi(dim)) is not True:
                    return GChunks(a, axis, step, hi, dim)
        return super().b_numpy_array_split(args, kw, st, n)

    # ------------------------------------------------------------------------------------------------ window functionals
    def window_geometry(self, a, axes, n):
        """a: view whose `axes` range over a box of a heap array.  -> (arr0, origin(ix_other) -> base origin, base extents, out shape)
        Every reduced axis must advance exactly one base axis by one; a base axis advanced by no reduced axis has extent 1."""
        b = base_of(a)
        if b is None:
            raise Unsupported("window reduction of a computed array (line %d)" % n.lineno)
        arr0, mp = b
        shape = list(shape_of(a))
        nb = len(arr0.shape)
        probe = [z3.Int(fresh_name("wp")) for _ in shape]
        ab = [zi(t) for t in mp(probe)]
        if len(ab) != nb:
            raise Unsupported("window reduction: base index arity (line %d)" % n.lineno)
        zero = [(probe[k], z3.IntVal(0)) for k in axes]
        org = [z3.simplify(z3.substitute(t, *zero)) for t in ab]
        owner = {}
        for r in axes:
            hit = [k for k in range(nb) if _mentions(ab[k], probe[r])]
            if len(hit) != 1 or hit[0] in owner.values():
                raise Unsupported("window reduction: a reduced axis must advance exactly one base axis of its own (line %d)" % n.lineno)
            owner[r] = hit[0]
        sv = z3.Solver()
        sv.set("timeout", 2000)
        want = []
        for k in range(nb):
            rs = [r for r in axes if owner[r] == k]
            want.append(ab[k] == (org[k] + probe[rs[0]] if rs else org[k]))
        sv.add(z3.Not(z3.And(*want)))
        if sv.check() != z3.unsat:
            raise Unsupported("window reduction: the reduced axes are not a contiguous box of the base array (line %d)" % n.lineno)
        extents = []
        for k in range(nb):
            rs = [r for r in axes if owner[r] == k]
            extents.append(zi(shape[rs[0]]) if rs else z3.IntVal(1))
        others = [k for k in range(len(shape)) if k not in axes]

        def origin(ix, org=org, probe=probe, others=others):
            sub = [(probe[k], zi(v)) for k, v in zip(others, ix)]
            return [z3.simplify(z3.substitute(t, *sub)) if sub else t for t in org]
        return arr0, origin, extents, [shape[k] for k in others]

    def window_uf(self, arr0, tag, st, nextra=0, kind=None):
        """uninterpreted functional of (contents of arr0; box origin, box extents, extra scalars), with the assumed contract of
        `kind` ('nanmedian', 'sum') attached once per array contents"""
        h_ = arr0.snap if arr0.snap is not None else st.heap[arr0.cell]
        self._keep.append(h_)
        nb = len(arr0.shape)
        key = ("win", tag, tuple(x.get_id() for x in (h_ if isinstance(h_, tuple) else (h_,))), nextra, nb)
        if key in self._uf_cache:
            return self._uf_cache[key]
        sig = [I] * (2 * nb) + [z3.RealSort()] * nextra
        UFk = z3.Function(fresh_name(tag + "_k"), *(sig + [fl.FK]))
        UFv = z3.Function(fresh_name(tag + "_v"), *(sig + [z3.RealSort()]))
        if kind in ("nanmedian", "sum") and arr0.dt == "f":
            o = [z3.Int(fresh_name("o%d" % k)) for k in range(nb)]
            e = [z3.Int(fresh_name("e%d" % k)) for k in range(nb)]
            p = [z3.Int(fresh_name("p%d" % k)) for k in range(nb)]
            r = fl.SFloat(UFk(*(o + e)), UFv(*(o + e)))
            frozen_arr = SArr(arr0.cell, arr0.dt, arr0.shape, (), arr0.name, snap=h_)
            el = fl.F(array_read(st, frozen_arr, p))
            inw = z3.And(*[z3.And(p[k] >= o[k], p[k] < o[k] + e[k]) for k in range(nb)])
            nonempty = z3.And(*[e[k] >= 1 for k in range(nb)])
            if kind == "nanmedian":
                allnan = z3.ForAll(p, z3.Implies(inw, fl.isnan(el)))
                lo = z3.Exists(p, z3.And(inw, z3.Not(fl.isnan(el)), fl.le(el, r)))
                hi = z3.Exists(p, z3.And(inw, z3.Not(fl.isnan(el)), fl.le(r, el)))
                body = z3.And(fl.isnan(r) == allnan, z3.Implies(z3.Not(fl.isnan(r)), z3.And(lo, hi)))
            else:
                # np.sum: NaN as soon as one element is NaN; over NaN-or-finite elements it is NaN only then, and finite otherwise
                anynan = z3.Exists(p, z3.And(inw, fl.isnan(el)))
                tame = z3.ForAll(p, z3.Implies(inw, z3.Or(fl.isnan(el), fl.isfin(el))))
                body = z3.And(z3.Implies(anynan, fl.isnan(r)), z3.Implies(tame, z3.And(fl.isnan(r) == anynan, z3.Or(fl.isnan(r), fl.isfin(r)))))
            self.axioms.append(z3.ForAll(o + e, z3.Implies(nonempty, body), patterns=[UFk(*(o + e))]))
        # a reduction is a function of the BOX CONTENTS: two arrays that agree on a box give the same value there
        reg = getattr(self, "_win_registry", None)
        if reg is None:
            reg = self._win_registry = {}
        fam = reg.setdefault((tag, nb, nextra, arr0.dt), [])
        if (kind is not None and nextra == 0) or (kind is None and tag.startswith("wf_")):
            # (a user-declared window functional is, by its declaration, a function of the window contents and of its scalar
            # arguments only: the same congruence, the scalars universally quantified)
            frozen_arr = SArr(arr0.cell, arr0.dt, arr0.shape, (), arr0.name, snap=h_)
            for (other, Ok, Ov) in fam:
                o = [z3.Int(fresh_name("co%d" % k)) for k in range(nb)]
                e = [z3.Int(fresh_name("ce%d" % k)) for k in range(nb)]
                p = [z3.Int(fresh_name("cp%d" % k)) for k in range(nb)]
                xs = [z3.Real(fresh_name("cx%d" % k)) for k in range(nextra)]
                inw = z3.And(*[z3.And(p[k] >= o[k], p[k] < o[k] + e[k]) for k in range(nb)])
                ea, eb = array_read(st, frozen_arr, p), array_read(st, other, p)
                same = fl.same(fl.F(ea), fl.F(eb)) if arr0.dt == "f" else (ea == eb)
                agree = z3.ForAll(p, z3.Implies(inw, same))
                concl = z3.And(UFk(*(o + e + xs)) == Ok(*(o + e + xs)), UFv(*(o + e + xs)) == Ov(*(o + e + xs)))
                self.axioms.append(z3.ForAll(o + e + xs, z3.Implies(agree, concl), patterns=[UFk(*(o + e + xs))]))
                self.axioms.append(z3.ForAll(o + e + xs, z3.Implies(agree, concl), patterns=[Ok(*(o + e + xs))]))
            fam.append((frozen_arr, UFk, UFv))
        self._uf_cache[key] = (UFk, UFv)
        return UFk, UFv

    def window_reduce(self, a, axes, tag, st, n, extra=(), kind=None):
        arr0, origin, extents, out_shape = self.window_geometry(a, axes, n)
        UFk, UFv = self.window_uf(arr0, tag, st, len(extra), kind)
        ex = [fl.F(x).v if not z3.is_expr(x) or not z3.is_real(x) else x for x in extra]

        def get(ix, st2, origin=origin, extents=extents, ex=ex):
            argv = list(origin(ix)) + list(extents) + ex
            return fl.SFloat(UFk(*argv), UFv(*argv))
        if not out_shape:
            return get([], st)
        return LArr("f", out_shape, get, None, name=tag)

    def b_numpy_nanmedian(self, args, kw, st, n):
        a = args[0]
        axis = kw.get("axis", args[1] if len(args) > 1 else None)
        if isinstance(a, tuple) and a and isinstance(a[0], str) and a[0] == "sview":
            a = self.sview_to_lazy(a)
        if isinstance(a, (SArr, LArr)):
            nd = len(shape_of(a))
            if nd == 4 and isinstance(axis, tuple) and tuple(axis) == (2, 3):
                return self.window_reduce(a, (2, 3), "nanmedian", st, n, kind="nanmedian")
            if nd == 2 and axis is None:
                return self.window_reduce(a, (0, 1), "nanmedian", st, n, kind="nanmedian")
        return super().b_numpy_nanmedian(args, kw, st, n)

    def b_numpy_sum(self, args, kw, st, n):
        a = args[0]
        axis = kw.get("axis", args[1] if len(args) > 1 else None)
        if isinstance(a, tuple) and a and isinstance(a[0], str) and a[0] == "sview":
            a = self.sview_to_lazy(a)
        if isinstance(a, LArr) and a.base is not None and a.dt == "f":
            nd = len(shape_of(a))
            if axis is None:
                axes = tuple(range(nd))
            elif isinstance(axis, int):
                axes = (axis if axis >= 0 else axis + nd,)
            elif isinstance(axis, tuple) and all(isinstance(x, int) for x in axis):
                axes = tuple(x if x >= 0 else x + nd for x in axis)
            else:
                axes = None
            if axes:
                try:
                    return self.window_reduce(a, axes, "sum", st, n, kind="sum")
                except Unsupported:
                    pass
        return super().b_numpy_sum(args, kw, st, n)

    def call_target(self, target, args, kwargs, st, n):
        oc = self.opt("opaque_calls", None)
        if oc and target.split(".")[-1] in oc:
            return ("opaque", target.split(".")[-1])   # a value only handed on to window functionals
        wf = self.opt("window_functionals", None)
        if wf and target.split(".")[-1] in wf:
            return self.call_window_functional(target.split(".")[-1], list(args) + list(kwargs.values()), st, n)
        return super().call_target(target, args, kwargs, st, n)

    # user-declared per-window functionals: option(window_functionals={"bilateral_kernel": k}) -- the callee's result at
    # [i, j] is a function of windows[i, j, :, :] and of k scalar arguments only (assumption, listed in the evidence)
    def e_Name(self, n, st):
        wf = self.opt("window_functionals", None)
        if wf and n.id in wf and n.id not in st.vars and n.id not in getattr(self, "bound_vars", {}):
            return SFunc(target="window_functional." + n.id, name=n.id)
        return super().e_Name(n, st)

    def call_window_functional(self, name, args, st, n):
        a = args[0]
        if isinstance(a, tuple) and a and isinstance(a[0], str) and a[0] == "sview":
            a = self.sview_to_lazy(a)
        if not (isinstance(a, (SArr, LArr)) and len(shape_of(a)) in (2, 4)):
            raise Unsupported("window functional %s: first argument must be a 4-D window array (line %d)" % (name, n.lineno))
        scal = []
        for x in args[1:]:
            if x is None or isinstance(x, (SArr, LArr)) or (isinstance(x, tuple) and x and isinstance(x[0], str) and x[0] == "opaque"):
                continue   # auxiliary arrays (kernels) are fixed per call site: part of the functional's identity
            scal.append(fl.F(x).v if isinstance(x, (fl.SFloat, float)) else z3.ToReal(zi(to_int(x))))
        axes = (2, 3) if len(shape_of(a)) == 4 else (0, 1)
        return self.window_reduce(a, axes, "wf_" + name, st, n, extra=scal)
