"""Control-flow and small-semantics extensions used by the vectorised matching-cost code:

* conditional expressions whose branches cannot be merged into one value (an array view vs the array itself) split the PATH: the
  enclosing statement is re-executed once under the condition and once under its negation;
* `for i, x in enumerate(a)` over a 1-D array is `for i in range(len(a)): x = a[i]`;
* a list indexed by a symbolic integer that the path condition pins to one position;
* `x % 1` on floats, np.ceil / np.floor on scalars, np.amin / np.amax of whole arrays (uninterpreted: only reported, never proved about);
* `cases` on attributes of self (`attr_cases(_method=[...])`), dictionaries of bound methods built in `__init__`;
* np.swapaxes as a lazily permuted VIEW, stores through slice / permuted views of a heap array, `dataarray.data = array`;
* `array_of(lambda i, j, k: expr, n0, n1, n2)` in specifications: the array defined pointwise by expr (a ghost).
"""
import ast
import z3
from . import fl, extract
from .fl import SFloat
from .vals import SArr, SList, SObj, SFunc, SStr, Unsupported, fresh_name, fresh_int
from .lazy import LArr, SData, SDs, _Lit, elem, shape_of, dtype_of, base_of, frozen, zi, _num
from .expr import is_int, is_boolv, is_float, as_bool, zb, to_int, simp_bool, band, bnot, merge
from .state import alloc_array, array_read
from .stmts import NORMAL


class NeedSplit(Exception):
    def __init__(self, cond):
        Exception.__init__(self, "path split")
        self.cond = cond


class FlowMixin:
    # ------------------------------------------------------------------------------------------------------------ path splits
    _ENGINE_CACHES = ("_uf_cache", "_win_registry", "_pure_cache", "_read_cache", "_whole_cache", "_ghost_cache", "_count_cache")

    def exec_stmt(self, s, st):
        if getattr(self, "frame_depth", 0) > 0:
            return super().exec_stmt(s, st)   # inside an inlined callee: the caller's statement is the one to re-execute
        snap = st.fork()
        snap.vars = dict(st.vars)
        n_ax = len(self.axioms)
        caches = {}
        for nm in self._ENGINE_CACHES:
            c = getattr(self, nm, None)
            if isinstance(c, dict):
                caches[nm] = {k: (list(v) if isinstance(v, list) else v) for k, v in c.items()}
        try:
            return super().exec_stmt(s, st)
        except NeedSplit as e:
            # forget what the aborted attempt added (axioms about arrays and functions of a state that is being discarded)
            del self.axioms[n_ax:]
            for nm in self._ENGINE_CACHES:
                if nm in caches:
                    setattr(self, nm, caches[nm])
                elif isinstance(getattr(self, nm, None), dict):
                    setattr(self, nm, {})
            out = []
            for c in (e.cond, z3.Not(e.cond)):
                s2 = snap.fork()
                s2.vars = dict(snap.vars)
                s2.assume(c)
                if self.feasible(s2):
                    out += self.exec_stmt(s, s2)
            return out

    def e_IfExp(self, n, st):
        c = as_bool(self.eval(n.test, st))
        if isinstance(c, bool):
            return self.eval(n.body if c else n.orelse, st)
        if not self.spec:
            if self.provable(zb(c), st):
                return self.eval(n.body, st)
            if self.provable(z3.Not(zb(c)), st):
                return self.eval(n.orelse, st)
            try:
                return super().e_IfExp(ast.IfExp(test=_Lit(c), body=n.body, orelse=n.orelse, lineno=n.lineno, col_offset=0), st)
            except (Unsupported, TypeError, AttributeError, z3.Z3Exception):
                raise NeedSplit(zb(c))
        return super().e_IfExp(ast.IfExp(test=_Lit(c), body=n.body, orelse=n.orelse, lineno=n.lineno, col_offset=0), st)

    # ------------------------------------------------------------------------------------------------------------------ loops
    def s_For(self, s, st):
        if isinstance(s.iter, ast.Call) and isinstance(s.iter.func, ast.Name) and s.iter.func.id == "enumerate" and len(s.iter.args) == 1 \
                and isinstance(s.target, ast.Tuple) and len(s.target.elts) == 2 and all(isinstance(e, ast.Name) for e in s.target.elts):
            a = self.eval(s.iter.args[0], st)
            if isinstance(a, (SArr, LArr)) and len(shape_of(a)) == 1:
                jname, xname = s.target.elts[0].id, s.target.elts[1].id
                bind = ast.Assign(targets=[ast.Name(id=xname, ctx=ast.Store())],
                                  value=ast.Subscript(value=_Lit(a), slice=ast.Name(id=jname, ctx=ast.Load()), ctx=ast.Load()), lineno=s.lineno)
                loop = ast.For(target=ast.Name(id=jname, ctx=ast.Store()), iter=_Lit(("range", 0, shape_of(a)[0], 1, False)),
                               body=[bind] + list(s.body), orelse=[], lineno=s.lineno)
                ast.fix_missing_locations(loop)
                for m in ast.walk(loop):
                    if not hasattr(m, "lineno"):
                        m.lineno = s.lineno
                        m.col_offset = 0
                self.loop_ordinals[id(loop)] = self.loop_ordinals.get(id(s), 0)
                return super().s_For(loop, st)
        return super().s_For(s, st)

    # ------------------------------------------------------------------------------------------------------- small semantics
    def e_Subscript(self, n, st):
        base = self.eval(n.value, st)
        if isinstance(base, SList) and not self.spec:
            k = self.eval(n.slice, st)
            if z3.is_expr(k) and z3.is_int(k):
                for j in range(len(base.items)):
                    if self.provable(k == j, st):
                        return base.items[j]
                raise Unsupported("list indexed by a symbolic integer that the path does not pin (line %d)" % n.lineno)
            return super().e_Subscript(ast.Subscript(value=_Lit(base), slice=_Lit(k), ctx=n.ctx, lineno=n.lineno, col_offset=0), st)
        if isinstance(base, dict) and not self.spec:
            k = self.eval(n.slice, st)
            if isinstance(k, SStr):
                for key in base:
                    if isinstance(key, str) and self.provable(k.tok == SStr_tok(key), st):
                        return base[key]
                raise Unsupported("dictionary indexed by a symbolic string that the path does not pin (line %d)" % n.lineno)
            return super().e_Subscript(ast.Subscript(value=_Lit(base), slice=_Lit(k), ctx=n.ctx, lineno=n.lineno, col_offset=0), st)
        if isinstance(base, (LArr, SArr)) and len(shape_of(base)) == 1 and isinstance(n.slice, ast.Slice) and n.slice.lower is None \
                and n.slice.upper is None and n.slice.step is not None:
            stp = self.eval(n.slice.step, st)
            if isinstance(stp, int) and stp == -1:
                # a[::-1]: the reversed view
                src = base
                nn = shape_of(base)[0]
                return LArr(dtype_of(base), [nn], lambda ix, st2, src=src, nn=nn: elem(src, [zi(nn) - 1 - zi(ix[0])], st2), None, "reversed")
        if isinstance(base, LArr) and getattr(base, "perm", None) is not None:
            idx = self.index_list(n.slice, st)
            if len(idx) == len(base.shape) and any(isinstance(i, (LArr, SArr)) for i in idx):
                return self.take_axis(base, idx, st, n)
        if isinstance(base, (SArr, LArr)):
            idx = self.index_list(n.slice, st)
            if len(idx) == len(shape_of(base)) and len(idx) >= 2 and sum(1 for i in idx if isinstance(i, (LArr, SArr))) == 1 and all(
                    (isinstance(i, (LArr, SArr)) and len(shape_of(i)) == 1 and dtype_of(i) == "i") or _full_slice(i) for i in idx):
                return self.take_axis(base, idx, st, n)
        return super().e_Subscript(ast.Subscript(value=_Lit(base), slice=n.slice, ctx=n.ctx, lineno=n.lineno, col_offset=0), st)

    def take_axis(self, base, idx, st, n):
        """a[:, J, :] with J a 1-D integer array: the selected sub-array (a copy)"""
        k = [j for j, i in enumerate(idx) if isinstance(i, (LArr, SArr))][0]
        J = frozen(idx[k], st)
        if len(shape_of(J)) != 1:
            raise Unsupported("index array must be 1-D (line %d)" % n.lineno)
        shape = list(shape_of(base))
        src = frozen(base, st)
        if not self.spec:
            x = z3.Int(fresh_name("tk"))
            g = zi(to_int(elem(J, [x], st)))
            self.emit(st, "bounds", "L%d.take" % n.lineno,
                      z3.ForAll([x], z3.Implies(z3.And(x >= 0, x < zi(shape_of(J)[0])), z3.And(g >= 0, g < zi(shape[k])))), n,
                      "every index of the index array is inside axis %d" % k)
        out = shape[:k] + [shape_of(J)[0]] + shape[k + 1:]

        def get(ix, st2, src=src, J=J, k=k):
            full = list(ix)
            full[k] = zi(to_int(elem(J, [ix[k]], st2)))
            return elem(src, full, st2)
        return LArr(dtype_of(base), out, get, None, "take")

    def e_BinOp(self, n, st):
        if isinstance(n.op, ast.Mod):
            a = self.eval(n.left, st)
            b = self.eval(n.right, st)
            if is_float(a) and isinstance(b, int) and b == 1:
                f = fl.F(a)
                return fl._with_kind_of(f, f.v - z3.ToReal(z3.ToInt(f.v)))   # x % 1 == x - floor(x) for finite x (NaN/inf keep their kind)
            return super().e_BinOp(ast.BinOp(left=_Lit(a), op=n.op, right=_Lit(b), lineno=n.lineno, col_offset=0), st)
        return super().e_BinOp(n, st)

    def b_numpy_ceil(self, args, kw, st, n):
        v = args[0]
        if is_float(v):
            f = fl.F(v)
            return fl._with_kind_of(f, z3.ToReal(fl.ceil_int(f)))
        if is_int(v):
            return v
        raise Unsupported("np.ceil of %r (line %d)" % (type(v), n.lineno))

    def b_numpy_floor(self, args, kw, st, n):
        v = args[0]
        if is_float(v):
            f = fl.F(v)
            return fl._with_kind_of(f, z3.ToReal(fl.floor_int(f)))
        if is_int(v):
            return v
        raise Unsupported("np.floor of %r (line %d)" % (type(v), n.lineno))

    def _whole_reduction(self, tag, args, kw, st, n):
        a = args[0]
        if isinstance(a, (SArr, LArr)) and kw.get("axis") is None and len(args) == 1:
            from .vals import fresh_float
            key = (tag, self.content_key(a, st) if isinstance(a, SArr) else id(a))
            cache = getattr(self, "_whole_cache", None)
            if cache is None:
                cache = self._whole_cache = {}
            if key not in cache:
                r = fresh_float(tag)   # a function of the array contents: one of its elements (finite when all of them are)
                q = [z3.Int(fresh_name("wq")) for _ in shape_of(a)]
                src = frozen(a, st)
                inr = z3.And(*[z3.And(x >= 0, x < zi(s_)) for x, s_ in zip(q, shape_of(a))])
                e = elem(src, q, st)
                if is_float(e):
                    st.assume(z3.Implies(z3.ForAll(q, z3.Implies(inr, fl.isfin(fl.F(e)))), fl.isfin(r)))
                cache[key] = r
            return cache[key]
        raise Unsupported("np.%s form (line %d)" % (tag, n.lineno))

    def b_numpy_argmax(self, args, kw, st, n):
        a = args[0]
        if isinstance(a, LArr) and a.dt == "b" and len(a.shape) == 1 and kw.get("axis") is None and len(args) == 1:
            # assumed contract of np.argmax on a boolean vector: the index of the first True, 0 when there is none
            src = frozen(a, st)
            nn = zi(a.shape[0])
            r = fresh_int("argmax")
            i = z3.Int(fresh_name("am"))
            at = lambda t: zb(as_bool(elem(src, [t], st)))
            wm = self.opt("witness_marks", False)
            pats = [self.witness_mark(i)] if wm else []
            none = z3.ForAll([i], z3.Implies(z3.And(i >= 0, i < nn), z3.Not(at(i))), patterns=pats) if pats else \
                z3.ForAll([i], z3.Implies(z3.And(i >= 0, i < nn), z3.Not(at(i))))
            before = z3.ForAll([i], z3.Implies(z3.And(i >= 0, i < r), z3.Not(at(i))), patterns=pats) if pats else \
                z3.ForAll([i], z3.Implies(z3.And(i >= 0, i < r), z3.Not(at(i))))
            if not self.spec:
                self.emit(st, "pre@call", "argmax.L%d" % n.lineno, simp_bool(nn >= 1), n, "np.argmax of a non-empty vector")
            st.assume(z3.And(r >= 0, r < nn, before, z3.Or(at(r), z3.And(none, r == 0))))
            if wm:
                st.assume(self.witness_mark(r))
            return r
        return super().b_numpy_argmax(args, kw, st, n)

    def b_numpy_amin(self, args, kw, st, n):
        return self._whole_reduction("amin", args, kw, st, n)

    def b_numpy_amax(self, args, kw, st, n):
        return self._whole_reduction("amax", args, kw, st, n)

    # ------------------------------------------------------------------------------------------------- objects and attributes
    def obj_attr(self, base, a, st, n):
        r = super().obj_attr(base, a, st, n)
        if r is not NotImplemented:
            return r
        # self.<a> assigned once, in __init__, to a literal dict of bound methods
        if base.name == "self" and self.f is not None and self.f.cls is not None:
            found = []
            for m in self.f.cls.body:
                if isinstance(m, ast.FunctionDef):
                    for s_ in ast.walk(m):
                        if isinstance(s_, ast.Assign):
                            for t in s_.targets:
                                if isinstance(t, ast.Attribute) and isinstance(t.value, ast.Name) and t.value.id == "self" and t.attr == a:
                                    found.append((m.name, s_.value))
            if len(found) == 1 and found[0][0] == "__init__" and isinstance(found[0][1], ast.Dict):
                out = {}
                for k, v in zip(found[0][1].keys, found[0][1].values):
                    if not (isinstance(k, ast.Constant) and isinstance(v, ast.Attribute) and isinstance(v.value, ast.Name) and v.value.id == "self"):
                        return NotImplemented
                    qual = ".".join(self.f.qual.split(".")[:-1] + [v.attr])
                    out[k.value] = SFunc(target=qual, name=v.attr)
                return out
        return NotImplemented

    # --------------------------------------------------------------------------------------------------------- permuted views
    def b_numpy_swapaxes(self, args, kw, st, n):
        a, i, j = args[0], args[1], args[2]
        if not (isinstance(a, (SArr, LArr)) and isinstance(i, int) and isinstance(j, int)):
            raise Unsupported("np.swapaxes form (line %d)" % n.lineno)
        nd = len(shape_of(a))
        perm = list(range(nd))
        perm[i], perm[j] = perm[j], perm[i]
        shape = [shape_of(a)[p] for p in perm]

        def unperm(ix, perm=perm):
            full = [None] * len(perm)
            for pos, p in enumerate(perm):
                full[p] = ix[pos]
            return full

        def get(ix, st2, a=a, unperm=unperm):
            return elem(a, unperm(ix), st2)
        base = None
        b = base_of(a)
        if b is not None:
            base = (b[0], lambda ix, b=b, unperm=unperm: b[1](unperm(ix)))
        r = LArr(dtype_of(a), shape, get, base, "swapaxes")
        r.perm = perm
        r.src = a
        return r

    def assign_target(self, t, v, st, s=None):
        if isinstance(t, ast.Subscript):
            base = self.eval(t.value, st)
            if isinstance(base, LArr) and base.base is not None and not self.spec:
                return self.store_through_view(base, t, v, st)
            if not isinstance(t.value, ast.Name):
                t = ast.Subscript(value=_Lit(base), slice=t.slice, ctx=t.ctx, lineno=t.lineno, col_offset=0)
        if isinstance(t, ast.Attribute) and t.attr == "data":
            base = self.eval(t.value, st)
            if isinstance(base, SData):
                if isinstance(v, LArr):
                    v = self.materialize(v, st, "data")
                if not isinstance(v, (SArr, LArr)):
                    raise Unsupported("dataarray.data = %r (line %d)" % (type(v), t.lineno))
                # states share DataArray objects: rebind the variable in THIS state's dataset instead of mutating the object
                done = False
                for dsv in st.vars.values():
                    if isinstance(dsv, SDs):
                        for kk, dd in list(dsv.vars.items()):
                            if dd is base:
                                dsv.vars[kk] = SData(v, base.dims, base.name, getattr(base, "owner", None))
                                done = True
                if not done:
                    raise Unsupported("dataarray.data = ... on a DataArray that is not a variable of a dataset in scope (line %d)" % t.lineno)
                return
            t = ast.Attribute(value=_Lit(base), attr=t.attr, ctx=t.ctx, lineno=t.lineno, col_offset=0)
        return super().assign_target(t, v, st, s)

    def store_through_view(self, view, t, v, st):
        """view[idx] = v where view is a slice / permuted view of a heap array: the same store expressed on the heap array.
        Supported: every index component a full slice, a basic slice or an integer; the value a scalar or a (lazy) array."""
        idx = self.index_list(t.slice, st)
        vshape = list(view.shape)
        idx = list(idx) + [("slice", None, None, None)] * (len(vshape) - len(idx))
        if len(idx) != len(vshape):
            raise Unsupported("store through a view: index arity (line %d)" % t.lineno)
        arr0, mp = view.base
        # region of the view: per view axis either a point or [lo, hi)
        los, his, points = [], [], []
        for i, s_ in zip(idx, vshape):
            if isinstance(i, tuple) and i and isinstance(i[0], str) and i[0] == "slice":
                lo, hi = self._slice_bounds(i, s_, st, t)
                los.append(lo)
                his.append(hi)
                points.append(None)
            elif is_int(i) or is_boolv(i):
                p = self.norm_index("view", i, s_, st, t)
                los.append(zi(p))
                his.append(zi(p) + 1)
                points.append(zi(p))
            else:
                raise Unsupported("store through a view with a fancy index (line %d)" % t.lineno)
        nd0 = len(arr0.shape)
        q = [z3.Int("vq%d!" % k) for k in range(nd0)]
        # a heap cell is written iff it is the image of a view cell of the region; views here are affine injections (slices, axis
        # permutations, fixed indices), so the pre-image is recovered by solving abs == mp(view index) symbolically per axis
        w = [z3.Int(fresh_name("vw")) for _ in vshape]
        ab = [zi(x) for x in mp(w)]
        if len(ab) != nd0:
            raise Unsupported("store through a view: base arity (line %d)" % t.lineno)
        inv = {}
        for k, e in enumerate(ab):
            # e must be  w_j + c  or a constant
            hit = [j for j in range(len(w)) if _mentions(e, w[j])]
            if len(hit) > 1:
                raise Unsupported("store through a non-affine view (line %d)" % t.lineno)
            if hit:
                j = hit[0]
                c = z3.simplify(z3.substitute(e, (w[j], z3.IntVal(0))))
                if not self.provable(e == w[j] + c, st):
                    raise Unsupported("store through a non-unit-stride view (line %d)" % t.lineno)
                if j in inv:
                    raise Unsupported("store through a view that repeats an axis (line %d)" % t.lineno)
                inv[j] = (k, c)
        if len(inv) != len(w):
            raise Unsupported("store through a view that drops an axis (line %d)" % t.lineno)
        fixed_ok = []
        for k, e in enumerate(ab):
            if not any(inv[j][0] == k for j in inv):
                fixed_ok.append(q[k] == e)
        widx = [None] * len(w)
        for j, (k, c) in inv.items():
            widx[j] = q[k] - c
        inside = z3.And(*(fixed_ok + [z3.And(widx[j] >= los[j], widx[j] < his[j]) for j in range(len(w))]
                          + [z3.And(q[k] >= 0, q[k] < zi(arr0.shape[k])) for k in range(nd0)]))
        if not self.frame_ok(arr0):
            self.emit(st, "frame", "L%d" % t.lineno, False, t, "store through a view of %s which is not in assigns" % arr0.name)
        from .state import havoc_cell, coerce_scalar
        from .vals import sel as zsel
        before = st.heap[arr0.cell]
        oldarr = SArr(arr0.cell, arr0.dt, arr0.shape, (), arr0.name, snap=before)
        havoc_cell(st, arr0, arr0.name or "vw")
        after = st.heap[arr0.cell]
        # value at the view position (relative to the region's origin for array values)
        rel = [widx[j] - los[j] for j in range(len(w)) if points[j] is None]
        if isinstance(v, (SArr, LArr)):
            vv = frozen(v, st)
            if len(shape_of(vv)) != len(rel):
                raise Unsupported("store through a view: rank of the value (line %d)" % t.lineno)
            if not self.spec:
                ext = [his[j] - los[j] for j in range(len(w)) if points[j] is None]
                self.emit(st, "shape", "L%d" % t.lineno, z3.And(*[zi(a) == z3.If(b < 0, 0, b) for a, b in zip(shape_of(vv), ext)]), t,
                          "assigned array has the extent of the slice")
            val = elem(vv, rel, st)
        else:
            val = v
        if arr0.dt == "f":
            fv = fl.F(_num(val)) if not isinstance(val, SFloat) else val
            st.assume(z3.ForAll(q, zsel(after[0], q) == z3.If(inside, fv.k, zsel(before[0], q)), patterns=[zsel(after[0], q)]))
            st.assume(z3.ForAll(q, zsel(after[1], q) == z3.If(inside, fv.v, zsel(before[1], q)), patterns=[zsel(after[1], q)]))
        else:
            st.assume(z3.ForAll(q, zsel(after, q) == z3.If(inside, coerce_scalar(val, arr0.dt), zsel(before, q)), patterns=[zsel(after, q)]))
        return None

    # ------------------------------------------------------------------------------------------------ ghost arrays (specs only)
    def b_array_of(self, args, kw, st, n):
        """array_of(lambda i, j, k: expr, n0, n1, n2): the float array of that shape whose cells are expr (specification only)"""
        if not self.spec:
            raise Unsupported("array_of outside a specification")
        lam = n.args[0]
        if not isinstance(lam, ast.Lambda):
            raise Unsupported("array_of needs a lambda")
        cache = getattr(self, "_ghost_cache", None)
        if cache is None:
            cache = self._ghost_cache = {}
        shape = [to_int(x) for x in args[1:]]
        names = [a.arg for a in lam.args.args]
        if len(names) != len(shape):
            raise Unsupported("array_of arity")
        q = [z3.Int("gq!%d" % i) for i in range(len(names))]   # canonical bound names: the defining term identifies the array
        saved = dict(self.bound_vars)
        try:
            for nm, v in zip(names, q):
                self.bound_vars[nm] = v
            body = self.eval(lam.body, st)
        finally:
            self.bound_vars = saved
        fv = fl.F(_num(body)) if not isinstance(body, SFloat) else body
        key = (fv.k.sexpr(), z3.simplify(fv.v).sexpr() if z3.is_expr(fv.v) else str(fv.v), tuple(str(zi(x)) for x in shape))
        if key in cache:
            return cache[key]
        arr = alloc_array(st, "ghost", "f", shape)
        arr.name = "ghost"
        h = st.heap[arr.cell]
        from .vals import sel as zsel
        inr = z3.And(*[z3.And(x >= 0, x < zi(s_)) for x, s_ in zip(q, shape)])
        self.axioms.append(z3.ForAll(q, z3.Implies(inr, zsel(h[0], q) == fv.k), patterns=[zsel(h[0], q)]))
        self.axioms.append(z3.ForAll(q, z3.Implies(inr, zsel(h[1], q) == fv.v), patterns=[zsel(h[1], q)]))
        snap = SArr(arr.cell, arr.dt, arr.shape, (), arr.name, snap=h)
        cache[key] = snap
        return snap


def SStr_tok(s):
    from .vals import intern_str
    return intern_str(s)


def _full_slice(i):
    return isinstance(i, tuple) and len(i) == 4 and isinstance(i[0], str) and i[0] == "slice" and i[1] is None and i[2] is None


def _mentions(t, v):
    seen, stack = set(), [t]
    while stack:
        x = stack.pop()
        if x.get_id() in seen:
            continue
        seen.add(x.get_id())
        if x.eq(v):
            return True
        stack.extend(x.children())
    return False
