"""Expression evaluation (code mode and spec mode) of the symbolic executor."""
import ast
import math
import z3
from . import fl
from .fl import SFloat
from .vals import (SArr, SList, SObj, SFunc, SNs, SStr, Unsupported, intern_str, fresh_int, I)
from .state import array_read, coerce_scalar


def is_int(v):
    return (isinstance(v, int) and not isinstance(v, bool)) or (z3.is_expr(v) and z3.is_int(v))


def is_boolv(v):
    return isinstance(v, bool) or (z3.is_expr(v) and z3.is_bool(v))


def is_bv(v):
    return z3.is_expr(v) and z3.is_bv(v)


def is_float(v):
    return isinstance(v, (SFloat, float))


def as_bool(v):
    """python truthiness -> z3 Bool or python bool"""
    if isinstance(v, bool):
        return v
    if v is None:
        return False
    if isinstance(v, int):
        return v != 0
    if isinstance(v, float):
        return v != 0.0
    if isinstance(v, str):
        return len(v) > 0
    if isinstance(v, (tuple, list, dict, set, frozenset)):
        return len(v) > 0
    if isinstance(v, SList):
        return len(v.items) > 0
    if isinstance(v, SStr):
        return v.tok != intern_str("")      # a string is falsy iff it is the empty string
    if isinstance(v, SFloat):
        return z3.Not(z3.And(fl.isfin(v), v.v == 0))
    if z3.is_expr(v):
        if z3.is_bool(v):
            return v
        if z3.is_int(v) or z3.is_real(v):
            return v != 0
        if z3.is_bv(v):
            return v != 0
    raise Unsupported("truthiness of %r" % (v,))


def zb(v):
    """to z3 Bool"""
    v = as_bool(v)
    return z3.BoolVal(v) if isinstance(v, bool) else v


def to_int(v):
    if isinstance(v, bool):
        return int(v)
    if is_int(v):
        return v
    if z3.is_expr(v) and z3.is_bool(v):
        return z3.If(v, z3.IntVal(1), z3.IntVal(0))
    if is_bv(v):
        return z3.BV2Int(v, False)
    raise Unsupported("to_int %r" % (v,))


def simp_bool(c):
    if isinstance(c, bool):
        return c
    c = z3.simplify(c)
    if z3.is_true(c):
        return True
    if z3.is_false(c):
        return False
    return c


def band(*cs):
    out = []
    for c in cs:
        if isinstance(c, bool):
            if not c:
                return False
            continue
        out.append(c)
    if not out:
        return True
    return out[0] if len(out) == 1 else z3.And(*out)


def bor(*cs):
    out = []
    for c in cs:
        if isinstance(c, bool):
            if c:
                return True
            continue
        out.append(c)
    if not out:
        return False
    return out[0] if len(out) == 1 else z3.Or(*out)


def bnot(c):
    return (not c) if isinstance(c, bool) else z3.Not(c)


def merge(c, a, b):
    """value-level ite"""
    if isinstance(c, bool):
        return a if c else b
    if a is b:
        return a
    if isinstance(a, SFloat) or isinstance(b, SFloat) or isinstance(a, float) or isinstance(b, float):
        return fl.ite(c, fl.F(a), fl.F(b))
    if isinstance(a, tuple) and isinstance(b, tuple) and len(a) == len(b):
        return tuple(merge(c, x, y) for x, y in zip(a, b))
    if isinstance(a, SStr) or isinstance(b, SStr) or isinstance(a, str) or isinstance(b, str):
        ta = a.tok if isinstance(a, SStr) else intern_str(a)
        tb = b.tok if isinstance(b, SStr) else intern_str(b)
        return SStr(z3.If(c, ta, tb))
    if is_bv(a) or is_bv(b):
        w = a.size() if is_bv(a) else b.size()
        return z3.If(c, coerce_scalar(a, "u%d" % w), coerce_scalar(b, "u%d" % w))
    if is_boolv(a) and is_boolv(b):
        return z3.If(c, zb(a), zb(b))
    if (is_int(a) or is_boolv(a)) and (is_int(b) or is_boolv(b)):
        return z3.If(c, to_int(a), to_int(b))
    if a is None and b is None:
        return None
    raise Unsupported("merge of %r and %r" % (type(a), type(b)))


def val_eq(a, b, spec=False):
    """python == ; in spec mode floats compare with nan == nan"""
    if isinstance(a, (SStr, str)) and isinstance(b, (SStr, str)):
        if isinstance(a, str) and isinstance(b, str):
            return a == b
        ta = a.tok if isinstance(a, SStr) else intern_str(a)
        tb = b.tok if isinstance(b, SStr) else intern_str(b)
        return ta == tb
    if a is None or b is None:
        return a is None and b is None
    if isinstance(a, (tuple, list)) and isinstance(b, (tuple, list)):
        if len(a) != len(b):
            return False
        return band(*[val_eq(x, y, spec) for x, y in zip(a, b)])
    if is_float(a) or is_float(b):
        fa, fb = fl.F(a), fl.F(b)
        return fl.same(fa, fb) if spec else fl.eq(fa, fb)
    if is_bv(a) or is_bv(b):
        w = a.size() if is_bv(a) else b.size()
        return coerce_scalar(a, "u%d" % w) == coerce_scalar(b, "u%d" % w)
    if is_boolv(a) and is_boolv(b):
        if isinstance(a, bool) and isinstance(b, bool):
            return a == b
        return zb(a) == zb(b)
    if (is_int(a) or is_boolv(a)) and (is_int(b) or is_boolv(b)):
        r = to_int(a) == to_int(b)
        return r
    if isinstance(a, SArr) and isinstance(b, SArr):
        return a.cell == b.cell
    if a is b:
        return True
    raise Unsupported("== of %r and %r" % (type(a), type(b)))


def arith(op, a, b, ex=None, node=None):
    """binary arithmetic on scalars; ex is the executor (for division obligations)"""
    # ---- bitvectors
    if is_bv(a) or is_bv(b):
        if is_float(a) or is_float(b):
            a = fl.F(z3.BV2Int(a, False)) if is_bv(a) else a
            b = fl.F(z3.BV2Int(b, False)) if is_bv(b) else b
            return arith(op, a, b, ex, node)
        w = a.size() if is_bv(a) else b.size()
        if is_bv(a) and is_bv(b):
            w = max(a.size(), b.size())
        x, y = coerce_scalar(a, "u%d" % w), coerce_scalar(b, "u%d" % w)
        if op == "+":
            return x + y
        if op == "-":
            return x - y
        if op == "*":
            return x * y
        if op == "&":
            return x & y
        if op == "|":
            return x | y
        if op == "^":
            return x ^ y
        if op == ">>":
            return z3.LShR(x, y)
        if op == "<<":
            return x << y
        raise Unsupported("bv op " + op)
    # ---- floats
    if is_float(a) or is_float(b):
        if op in ("&", "|", "^", "<<", ">>"):
            raise Unsupported("bit op on float")
        x = fl.F(to_int(a)) if not is_float(a) else fl.F(a)
        y = fl.F(to_int(b)) if not is_float(b) else fl.F(b)
        if op == "+":
            return fl.add(x, y)
        if op == "-":
            return fl.sub(x, y)
        if op == "*":
            return fl.mul(x, y)
        if op == "/":
            if ex is not None:
                ex.div_check(x, y, node)
            return fl.div_nonzero(x, y)
        if op == "**":
            if isinstance(b, int) and b == 2:
                if ABSTRACT_SQUARE:
                    # x ** 2 as an uninterpreted function of x (same kind rules as x * x): enough where squares are only compared
                    # for equality, and it keeps the queries linear
                    return fl.square_uf(x)
                return fl.mul(x, x)
            raise Unsupported("float ** non-2")
        if op == "%":
            # x % y for finite x, y>0 : x - y*floor(x/y)
            if ex is not None:
                ex.require_finite(x, node)
                ex.require_finite(y, node)
                ex.div_check(x, y, node)
            q = z3.ToReal(z3.ToInt(x.v / y.v))
            return SFloat(fl.FIN, x.v - y.v * q, True)
        if op == "//":
            if ex is not None:
                ex.div_check(x, y, node)
            return SFloat(fl.FIN, z3.ToReal(z3.ToInt(x.v / y.v)), True)
        raise Unsupported("float op " + op)
    # ---- bools with & | ^
    if is_boolv(a) and is_boolv(b) and op in ("&", "|", "^"):
        if op == "&":
            return band(a, b)
        if op == "|":
            return bor(a, b)
        return z3.Xor(zb(a), zb(b))
    # ---- ints
    if op == "*" and z3.is_expr(a) and z3.is_bool(a):
        yb = to_int(b)
        return z3.If(a, yb if z3.is_expr(yb) else z3.IntVal(yb), z3.IntVal(0))
    if op == "*" and z3.is_expr(b) and z3.is_bool(b):
        xa = to_int(a)
        return z3.If(b, xa if z3.is_expr(xa) else z3.IntVal(xa), z3.IntVal(0))
    x, y = to_int(a), to_int(b)
    conc = isinstance(x, int) and isinstance(y, int)
    if op == "+":
        return x + y
    if op == "-":
        return x - y
    if op == "*":
        return x * y
    if op == "/":
        if conc and y != 0:
            return fl.F(x / y) if (x % y) else fl.F(x // y)
        if ex is not None:
            ex.div_check(fl.F(x), fl.F(y), node)
        return fl.div_nonzero(fl.F(x), fl.F(y))
    if op == "//":
        if conc and y != 0:
            return x // y
        if ex is not None:
            ex.div_check(fl.F(x), fl.F(y), node)
        if isinstance(y, int) and y > 0:
            return x / y if not isinstance(x, int) else z3.IntVal(x) / y  # z3 int div floors for positive divisor
        xx = x if z3.is_expr(x) else z3.IntVal(x)
        yy = y if z3.is_expr(y) else z3.IntVal(y)
        q = xx / yy  # z3: floor for y>0, ceil for y<0 (euclidean remainder)
        return z3.If(yy > 0, q, z3.If(xx % yy == 0, q, q - 1))
    if op == "%":
        if conc and y != 0:
            return x % y
        if ex is not None:
            ex.div_check(fl.F(x), fl.F(y), node)
        xx = x if z3.is_expr(x) else z3.IntVal(x)
        if isinstance(y, int) and y > 0:
            return xx % y
        yy = y if z3.is_expr(y) else z3.IntVal(y)
        r = xx % yy  # euclidean: 0 <= r < |y|
        return z3.If(yy > 0, r, z3.If(r == 0, r, r + yy))
    if op == "**":
        if conc:
            return x**y
        if isinstance(y, int) and 0 <= y <= 4:
            r = 1
            for _ in range(y):
                r = r * x
            return r
        raise Unsupported("int ** symbolic")
    if conc:
        return {"&": x & y, "|": x | y, "^": x ^ y, "<<": x << y, ">>": x >> y}[op]
    if op == "<<" and isinstance(y, int):
        return x * (2**y)
    if op == ">>" and isinstance(y, int):
        xx = x if z3.is_expr(x) else z3.IntVal(x)
        return xx / (2**y)
    if op in ("&", "|", "^"):
        # bitwise operators on python ints, modelled on 64-bit two's complement (exact for |x| < 2**63, which is stated)
        bx = z3.Int2BV(x if z3.is_expr(x) else z3.IntVal(x), 64)
        by = z3.Int2BV(y if z3.is_expr(y) else z3.IntVal(y), 64)
        r = {"&": bx & by, "|": bx | by, "^": bx ^ by}[op]
        return z3.BV2Int(r, True)
    raise Unsupported("int op %s on symbolic operands" % op)


def compare(op, a, b, spec=False):
    if op == "==":
        return val_eq(a, b, spec)
    if op == "!=":
        return bnot(val_eq(a, b, spec))
    if op in ("is", "is not"):
        r = (a is None and b is None) if (a is None or b is None) else val_eq(a, b, spec)
        return r if op == "is" else bnot(r)
    if is_float(a) or is_float(b):
        x = fl.F(to_int(a)) if not is_float(a) else fl.F(a)
        y = fl.F(to_int(b)) if not is_float(b) else fl.F(b)
        return {"<": fl.lt(x, y), "<=": fl.le(x, y), ">": fl.lt(y, x), ">=": fl.le(y, x)}[op]
    if is_bv(a) or is_bv(b):
        w = a.size() if is_bv(a) else b.size()
        x, y = coerce_scalar(a, "u%d" % w), coerce_scalar(b, "u%d" % w)
        return {"<": z3.ULT(x, y), "<=": z3.ULE(x, y), ">": z3.UGT(x, y), ">=": z3.UGE(x, y)}[op]
    x, y = to_int(a), to_int(b)
    return {"<": x < y, "<=": x <= y, ">": x > y, ">=": x >= y}[op]


ABSTRACT_SQUARE = False   # set per contract (option abstract_square) by verify_contract


BINOPS = {ast.Add: "+", ast.Sub: "-", ast.Mult: "*", ast.Div: "/", ast.FloorDiv: "//", ast.Mod: "%", ast.Pow: "**",
          ast.BitAnd: "&", ast.BitOr: "|", ast.BitXor: "^", ast.LShift: "<<", ast.RShift: ">>"}
CMPOPS = {ast.Eq: "==", ast.NotEq: "!=", ast.Lt: "<", ast.LtE: "<=", ast.Gt: ">", ast.GtE: ">=", ast.Is: "is",
          ast.IsNot: "is not"}
