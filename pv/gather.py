"""Vectorised numpy: elementwise arithmetic / comparisons on arrays, boolean masks, np.where index families,
gathers `a[np.where(m)]` / `a[ys, xs]` / `a[:, cols]` / `a[boolmask]`, masked scatter-assignments (= and op=),
three-argument np.where, np.isnan / np.min(axis) on boolean arrays.

A mask is a lazy boolean array over the FULL index space of the array it selects from; a gather is (mask, value function
over the full index space).  A scatter `a[sel] op= v` becomes  a'[i] = If(mask(i), op(a[i], v(i)), a[i])  for all i --
np.where indices are pairwise distinct, so `op=` applies once per selected cell.
"""
import ast
import z3
from . import fl
from .fl import SFloat
from .vals import SArr, SList, SFunc, SStr, Unsupported, fresh_name, fresh_int, sel as zsel
from .state import array_read, coerce_scalar, havoc_cell
from .lazy import LArr, SData, SDs, _Lit, elem, shape_of, dtype_of, frozen, zi, _num
from .expr import (is_int, is_boolv, is_bv, is_float, as_bool, zb, to_int, simp_bool, band, bor, bnot, merge, arith, compare, val_eq,
                   BINOPS, CMPOPS)


class WhereIdx:
    """np.where(mask): a tuple of index arrays designating the cells where mask holds (in C order, pairwise distinct)"""
    def __init__(self, mask):
        self.mask = mask  # LArr bool

    def __len__(self):
        return len(self.mask.shape)


class WhereComp:
    def __init__(self, w, k):
        self.w = w
        self.k = k


class Gath:
    """values of the selected cells: (mask over the full index space, value function over the full index space)"""
    def __init__(self, mask, val, dt):
        self.mask = mask
        self.val = val  # val(idx, st)
        self.dt = dt


def mask_root(m):
    return getattr(m, "root", m)


def derive(g, val, dt):
    """a gather aligned with g (same selection, same parameter space)"""
    r = Gath(g.mask, val, dt)
    if hasattr(g, "sel"):
        r.sel = g.sel
    if hasattr(g, "nd"):
        r.nd = g.nd
    return r


def gval(rhs, ix, st2, m):
    """value of a gathered operand at target index ix: row vectors (nd == 1) are indexed by the position on the masked axis"""
    if getattr(rhs, "nd", None) == 1 and len(ix) > 1 and getattr(m, "axis", None) is not None:
        return rhs.val([ix[m.axis]], st2)
    return rhs.val(ix, st2)


def sel_compatible(rhs, m):
    sr, sm = getattr(rhs, "sel", None), getattr(m, "sel", None)
    if sr is not None and sm is not None:
        from .select import _eq
        return _eq(sr, sm)
    return _same_selection(rhs.mask, m)


def axis_mask(m1, shape, k):
    r = LArr("b", shape, lambda ix, st2, m1=m1, k=k: m1.get([ix[k]], st2), None, "axis-mask")
    r.root = mask_root(m1)
    r.axis = k
    return r


def is_arr(v):
    return isinstance(v, (SArr, LArr))


def arr_dt(v):
    return dtype_of(v)


def result_dt(op, a, b):
    da = arr_dt(a) if is_arr(a) else ("f" if is_float(a) else "b" if is_boolv(a) else "i")
    db = arr_dt(b) if is_arr(b) else ("f" if is_float(b) else "b" if is_boolv(b) else "i")
    if op in ("==", "!=", "<", "<=", ">", ">="):
        return "b"
    if "f" in (da, db) or "r" in (da, db) or op == "/":
        return "f"
    if da.startswith("u"):
        return da
    if db.startswith("u"):
        return db
    if da == "b" and db == "b" and op in ("&", "|", "^"):
        return "b"
    return "i"


def bshape(a, b):
    """broadcast shape of two operands (same shape, or one is scalar, or trailing-dimension broadcast of a 1-D array)"""
    sa = shape_of(a) if is_arr(a) else None
    sb = shape_of(b) if is_arr(b) else None
    if sa is None:
        return tuple(sb)
    if sb is None:
        return tuple(sa)
    if len(sa) == len(sb):
        return tuple(sa)
    return tuple(sa) if len(sa) > len(sb) else tuple(sb)


def belem(v, idx, st, nd):
    if is_arr(v):
        k = len(shape_of(v))
        return elem(v, list(idx)[nd - k:], st)
    return v


def scalar_op(op, x, y, spec):
    if op in ("==", "!=", "<", "<=", ">", ">="):
        return compare(op, x, y, spec)
    return arith(op, x, y, None, None)


class GatherMixin:
    # ------------------------------------------------------------ elementwise
    def elementwise(self, op, a, b, st):
        a2 = frozen(a, st)
        b2 = frozen(b, st)
        shape = bshape(a2, b2)
        nd = len(shape)
        dt = result_dt(op, a2, b2)
        spec = self.spec

        def get(ix, st2, a2=a2, b2=b2, op=op, nd=nd, spec=spec):
            return scalar_op(op, belem(a2, ix, st2, nd), belem(b2, ix, st2, nd), spec)
        return LArr(dt, shape, get, None, "ew" + op)

    def e_BinOp(self, n, st):
        a = self.eval(n.left, st)
        b = self.eval(n.right, st)
        if isinstance(a, SData) or isinstance(b, SData):
            a = a.arr if isinstance(a, SData) else a
            b = b.arr if isinstance(b, SData) else b
            r = self.e_BinOp(ast.BinOp(left=_Lit(a), op=n.op, right=_Lit(b), lineno=n.lineno, col_offset=0), st)
            return SData(r) if is_arr(r) else r
        if isinstance(a, Gath) or isinstance(b, Gath):
            return self.gath_op(BINOPS[type(n.op)], a, b, st, n)
        if (is_arr(a) or is_arr(b)) and not (isinstance(a, tuple) or isinstance(b, tuple)):
            return self.elementwise(BINOPS[type(n.op)], a, b, st)
        return super().e_BinOp(ast.BinOp(left=_Lit(a), op=n.op, right=_Lit(b), lineno=n.lineno, col_offset=0), st)

    def e_Compare(self, n, st):
        if len(n.ops) == 1 and not isinstance(n.ops[0], (ast.In, ast.NotIn, ast.Is, ast.IsNot)):
            a = self.eval(n.left, st)
            b = self.eval(n.comparators[0], st)
            if isinstance(a, SData) or isinstance(b, SData):
                a = a.arr if isinstance(a, SData) else a
                b = b.arr if isinstance(b, SData) else b
                r = self.e_Compare(ast.Compare(left=_Lit(a), ops=n.ops, comparators=[_Lit(b)], lineno=n.lineno, col_offset=0), st)
                return SData(r) if is_arr(r) else r
            if isinstance(a, Gath) or isinstance(b, Gath):
                return self.gath_op(CMPOPS[type(n.ops[0])], a, b, st, n)
            if (is_arr(a) or is_arr(b)) and not (isinstance(a, tuple) or isinstance(b, tuple)):
                return self.elementwise(CMPOPS[type(n.ops[0])], a, b, st)
            return super().e_Compare(ast.Compare(left=_Lit(a), ops=n.ops, comparators=[_Lit(b)], lineno=n.lineno, col_offset=0), st)
        return super().e_Compare(n, st)

    def e_UnaryOp(self, n, st):
        v = self.eval(n.operand, st)
        if is_arr(v):
            src = frozen(v, st)
            if isinstance(n.op, (ast.Not, ast.Invert)) and arr_dt(v) == "b":
                return LArr("b", shape_of(v), lambda ix, st2, src=src: bnot(as_bool(elem(src, ix, st2))), None, "not")
            if isinstance(n.op, ast.USub):
                return LArr(arr_dt(v), shape_of(v), lambda ix, st2, src=src: arith("-", 0, elem(src, ix, st2), None, None), None, "neg")
            raise Unsupported("unary op on array (line %d)" % n.lineno)
        return super().e_UnaryOp(ast.UnaryOp(op=n.op, operand=_Lit(v), lineno=n.lineno, col_offset=0), st)

    # ------------------------------------------------------------ gathers
    def same_mask(self, g1, g2, n):
        if g1.mask is not g2.mask:
            raise Unsupported("gathers over different selections are combined (line %d)" % getattr(n, "lineno", 0))

    def gath_op(self, op, a, b, st, n):
        g = a if isinstance(a, Gath) else b
        if isinstance(a, Gath) and isinstance(b, Gath):
            self.same_mask(a, b, n)
        spec = self.spec

        def val(ix, st2, a=a, b=b, op=op, spec=spec):
            x = a.val(ix, st2) if isinstance(a, Gath) else a
            y = b.val(ix, st2) if isinstance(b, Gath) else b
            return scalar_op(op, x, y, spec)
        dt = "b" if op in ("==", "!=", "<", "<=", ">", ">=") else g.dt
        return Gath(g.mask, val, dt)

    def full_mask(self, arr, idx, st, n):
        """interpret a fancy / boolean index of `arr` as a mask over arr's full index space, or None"""
        shape = list(shape_of(arr))
        nd = len(shape)
        # a[W] with W = np.where(mask) of the same rank, or a[boolmask]
        if len(idx) == 1 and isinstance(idx[0], WhereIdx) and len(idx[0].mask.shape) == nd:
            return idx[0].mask
        if len(idx) == 1 and isinstance(idx[0], LArr) and idx[0].dt == "b" and len(idx[0].shape) == nd:
            return idx[0]
        # a[ys, xs, ...] with the components of ONE np.where result, in order
        if len(idx) == nd and all(isinstance(i, WhereComp) for i in idx) and all(i.w is idx[0].w for i in idx) \
                and [i.k for i in idx] == list(range(nd)):
            return idx[0].w.mask
        # a[:, cols] : full slices and one 1-D selection (np.where result, its tuple, its single component, or an empty list)
        sel_axes = [k for k, i in enumerate(idx) if not (isinstance(i, tuple) and i and i[0] == "slice" and i[1] is None and i[2] is None)]
        if len(idx) == nd and len(sel_axes) == 1:
            k = sel_axes[0]
            i = idx[k]
            m1 = None
            if isinstance(i, WhereIdx) and len(i.mask.shape) == 1:
                m1 = i.mask
            elif isinstance(i, WhereComp) and len(i.w.mask.shape) == 1:
                m1 = i.w.mask
            elif isinstance(i, tuple) and len(i) == 1 and isinstance(i[0], WhereComp) and len(i[0].w.mask.shape) == 1:
                m1 = i[0].w.mask
            elif isinstance(i, tuple) and len(i) == 1 and isinstance(i[0], SList) and not i[0].items:
                m1 = LArr("b", [shape[k]], lambda ix, st2: False, None, "empty")
            elif isinstance(i, SList) and not i.items:
                m1 = LArr("b", [shape[k]], lambda ix, st2: False, None, "empty")
            elif isinstance(i, Gath) and i.dt == "i" and len(i.mask.shape) == 1:
                # a[:, J] with J an index array gathered from a 1-D selection: only J(x) == x (positions select themselves)
                x = z3.Int(fresh_name("gx"))
                g = zi(to_int(i.val([x], st)))
                sv = z3.Solver()
                sv.set("timeout", 2000)
                sv.add(list(st.pc) + [zb(as_bool(i.mask.get([x], st))), x >= 0, x < zi(i.mask.shape[0]), g != x])
                if sv.check() != z3.unsat:
                    raise Unsupported("store through a computed index array that is not the identity on its selection (line %d)" % n.lineno)
                if not self.spec:
                    self.emit(st, "bounds", "L%d.axis%d" % (n.lineno, k), simp_bool(zi(i.mask.shape[0]) <= zi(shape[k])), n,
                              "selected positions lie inside axis %d" % k)
                m1 = i.mask
            if m1 is not None:
                return axis_mask(m1, shape, k)
        return None

    def e_Subscript(self, n, st):
        base = self.eval(n.value, st)
        if isinstance(base, WhereIdx):
            k = to_int(self.eval(n.slice, st))
            if isinstance(k, int):
                return WhereComp(base, k if k >= 0 else len(base) + k)
        if is_arr(base):
            idx = self.index_list(n.slice, st)
            if any(i is None for i in idx) and all(i is None or (isinstance(i, tuple) and i[0] == "slice" and i[1:] == (None, None, None))
                                                   for i in idx):
                # a[:, :, np.newaxis]: full slices and new unit axes only -- the same values seen through one more axis of extent 1
                src = frozen(base, st)
                keep = [k for k, i in enumerate(idx) if i is not None]
                if len(keep) != len(shape_of(base)):
                    raise Unsupported("np.newaxis with a partial index (line %d)" % n.lineno)
                shp, it = [], iter(shape_of(base))
                for i in idx:
                    shp.append(1 if i is None else next(it))
                return LArr(arr_dt(base), shp, (lambda ix, st2, src=src, keep=keep: elem(src, [ix[k] for k in keep], st2)), None,
                            name="newaxis")
            gi = [k for k, i in enumerate(idx) if isinstance(i, Gath)]
            if gi:
                return self.index_gather(base, idx, gi, st, n)
            if any(isinstance(i, (WhereIdx, WhereComp)) or (isinstance(i, LArr) and i.dt == "b")
                   or (isinstance(i, tuple) and len(i) == 1 and isinstance(i[0], (WhereComp, SList))) or
                   (isinstance(i, SList) and not i.items) for i in idx):
                m = self.full_mask(base, idx, st, n)
                if m is None:
                    raise Unsupported("fancy index form (line %d)" % n.lineno)
                src = frozen(base, st)
                return Gath(m, lambda ix, st2, src=src: elem(src, ix, st2), arr_dt(base))
            if len(idx) == 1 and isinstance(idx[0], SList) and idx[0].items and all(isinstance(x, int) for x in idx[0].items) \
                    and len(shape_of(base)) == 1:
                # a[[0, -1]] -> small concrete gather
                out = []
                for x in idx[0].items:
                    out.append(elem(base, [self.norm_index(getattr(base, "name", "a"), x, shape_of(base)[0], st, n)], st))
                return SList(out, arr_dt(base))
        return super().e_Subscript(ast.Subscript(value=_Lit(base), slice=n.slice, ctx=n.ctx, lineno=n.lineno, col_offset=0), st)

    def e_Attribute(self, n, st):
        base = self.eval(n.value, st)
        if isinstance(base, WhereIdx) and n.attr == "mask":
            return base.mask
        if isinstance(base, WhereComp) and n.attr == "mask":
            return base.w.mask
        if isinstance(base, WhereComp) and n.attr == "size":
            return self.selection_count(base.w, st)
        if isinstance(base, Gath):
            return SFunc(name="gather." + n.attr, handler=("method", base))
        if isinstance(base, tuple) and base and isinstance(base[0], str) and base[0] == "rasterfile" and n.attr in ("count", "width", "height"):
            # band count / size of a raster file: an ASSUMED pure function of the path
            p_ = base[1]
            if isinstance(p_, (str, SStr)):
                from .vals import intern_str
                tok = p_.tok if isinstance(p_, SStr) else z3.IntVal(intern_str(p_))
                uf = z3.Function("raster_" + n.attr, z3.IntSort(), z3.IntSort())
                r = uf(tok)
                if not any(ax.eq(r >= 0) for ax in self.axioms[-8:]):
                    self.axioms.append(r >= 0)
                return r
            raise Unsupported("raster attribute of a non-string path (line %d)" % n.lineno)
        return super().e_Attribute(ast.Attribute(value=_Lit(base), attr=n.attr, ctx=n.ctx, lineno=n.lineno, col_offset=0), st)

    def b_xarray_align(self, args, kw, st, n):
        """xr.align(a, b): inner join on the coordinate labels; identity when both carry the same labels -- ASSUMED here
        (the objects come from the same image grid); the shapes must agree (obligation)"""
        out = []
        for a in args:
            out.append(a)
        if not self.spec and len(args) == 2:
            sa, sb = shape_of(args[0].arr if isinstance(args[0], SData) else args[0]), shape_of(args[1].arr if isinstance(args[1], SData) else args[1])
            if len(sa) != len(sb):
                raise Unsupported("xr.align of different ranks (line %d)" % n.lineno)
            self.emit(st, "pre@call", "align.L%d" % n.lineno, band(*[simp_bool(zi(x) == zi(y)) for x, y in zip(sa, sb)]), n,
                      "xr.align operands have the same shape (same grid)")
        return tuple(out)

    def b_xarray_where(self, args, kw, st, n):
        a = [x.arr if isinstance(x, SData) else x for x in args]
        r = self.b_numpy_where(a, kw, st, n)
        return SData(r) if is_arr(r) else r

    def index_gather(self, base, idx, gi, st, n):
        """src[:, J] / src[J]: J an integer index array gathered from a 1-D selection m (J(x) defined where m(x)).
        Result: gather over the index space of src with axis k replaced by the selection's space: value src[.., J(x), ..]"""
        shape = list(shape_of(base))
        if len(gi) != 1 or len(idx) != len(shape):
            raise Unsupported("index-array form (line %d)" % n.lineno)
        k = gi[0]
        J = idx[k]
        if J.dt != "i" or len(J.mask.shape) != 1:
            raise Unsupported("index array must be a 1-D integer gather (line %d)" % n.lineno)
        for kk, i in enumerate(idx):
            if kk != k and not (isinstance(i, tuple) and i and isinstance(i[0], str) and i[0] == "slice" and i[1] is None and i[2] is None):
                raise Unsupported("index-array form: other axes must be full slices (line %d)" % n.lineno)
        src = frozen(base, st)
        if not self.spec:
            x = z3.Int(fresh_name("jx"))
            g = zi(to_int(J.val([x], st)))
            self.emit(st, "bounds", "L%d.take" % n.lineno,
                      z3.ForAll([x], z3.Implies(z3.And(x >= 0, x < zi(J.mask.shape[0]), zb(as_bool(J.mask.get([x], st)))),
                                                z3.And(g >= 0, g < zi(shape[k])))), n,
                      "every selected index is inside axis %d of the indexed array" % k)
        out_shape = shape[:k] + [J.mask.shape[0]] + shape[k + 1:]
        m = axis_mask(J.mask, out_shape, k)

        def val(ix, st2, src=src, J=J, k=k):
            full = list(ix)
            full[k] = zi(to_int(J.val([ix[k]], st2)))
            return elem(src, full, st2)
        return Gath(m, val, arr_dt(base))

    def m_astype(self, recv, args, kw, st, n):
        if isinstance(recv, SData):
            r = self.m_astype(recv.arr, args, kw, st, n)
            return SData(r, recv.dims, recv.name) if is_arr(r) else r
        if isinstance(recv, Gath):
            dt = args[0] if args else kw.get("dtype")
            from .npmodel import dtype_code
            code = dtype_code(dt)

            if code.startswith("u") and recv.dt in ("i", "b"):
                # integers converted to an unsigned type and used in integer arithmetic afterwards: value modulo 2**w, kept in Z
                w = int(code[1:])

                def val(ix, st2, recv=recv, w=w):
                    v = recv.val(ix, st2)
                    v = to_int(v)
                    if z3.is_expr(v) and z3.is_app(v) and v.decl().kind() == z3.Z3_OP_ITE and all(
                            z3.is_int_value(c) and 0 <= c.as_long() < 2 ** w for c in v.children()[1:]):
                        return v   # already in range
                    return v % (2 ** w)
                return derive(recv, val, "i")

            def val(ix, st2, recv=recv, code=code):
                v = recv.val(ix, st2)
                if code == "i" and is_float(v):
                    return fl.trunc_int(fl.F(v))
                return coerce_scalar(to_int(v) if is_boolv(v) else v, code) if code != "f" else fl.F(_num(v))
            return derive(recv, val, code)
        if isinstance(recv, SList) and recv.items and not any(is_arr(x) for x in recv.items):
            dt = args[0] if args else kw.get("dtype")
            from .npmodel import dtype_code
            code = dtype_code(dt)
            if code == "i":
                out = []
                for x in recv.items:
                    if is_float(x):
                        # name the truncation once: the Real->Int conversion then occurs in a single defining equation
                        d = fresh_int("trunc")
                        st.assume(d == fl.trunc_int(fl.F(x)))
                        out.append(d)
                    else:
                        out.append(to_int(x))
                return SList(out, "i")
        return super().m_astype(recv, args, kw, st, n)

    def selection_count(self, w, st):
        """len of an np.where component: N >= 0 and (N == 0 iff no position is selected)"""
        cache = getattr(self, "_count_cache", None)
        if cache is None:
            cache = self._count_cache = {}
        if id(w) in cache:
            return cache[id(w)][1]
        N = fresh_int("nsel")
        q = [z3.Int(fresh_name("cq")) for _ in w.mask.shape]
        inr = [z3.And(x >= 0, x < zi(s_)) for x, s_ in zip(q, w.mask.shape)]
        st.assume(z3.And(N >= 0, (N == 0) == z3.ForAll(q, z3.Implies(z3.And(*inr), z3.Not(zb(as_bool(w.mask.get(q, st))))))))
        cache[id(w)] = (w, N)
        return N

    def m_update(self, recv, args, kw, st, n):
        from .lazy import _Map
        if isinstance(recv, _Map) and recv.name.endswith(".attrs") and args and isinstance(args[0], dict):
            for k, v in args[0].items():
                recv.d[k] = v
            return None
        raise Unsupported(".update on %r (line %d)" % (type(recv), n.lineno))

    # ------------------------------------------------------------ raster files (assumed, pure)
    def b_pandora_img_tools_rasterio_open(self, args, kw, st, n):
        """rasterio.open(path): an opaque reader; reader.read(band, window=w) is an ASSUMED pure function of (path, band, window)
        returning a 2-D integer array (its size is whatever the contract's precondition says)"""
        mode = kw.get("mode", args[1] if len(args) > 1 else "r")
        if isinstance(mode, str) and "w" in mode:
            # a raster opened for writing: a GHOST array (count, height, width) records what is written into the file
            from .state import alloc_array
            cnt, hh, ww = kw.get("count"), kw.get("height"), kw.get("width")
            if cnt is None or hh is None or ww is None:
                raise Unsupported("rasterio_open(mode='w') without count/height/width (line %d)" % n.lineno)
            f_ = alloc_array(st, "file", "f", [to_int(cnt), to_int(hh), to_int(ww)])
            f_.name = "file"
            self.local_cells.add(f_.cell)
            files = getattr(self, "_written_files", None)
            if files is None:
                files = self._written_files = {}
            files[self.content_key(args[0], st)] = f_
            return ("rasterwriter", args[0], f_)
        return ("rasterfile", args[0])

    b_rasterio_open = b_pandora_img_tools_rasterio_open

    def b_written_file(self, args, kw, st, n):
        """specification only: the ghost array (band, row, col) of what the function wrote into the raster file of that path"""
        files = getattr(self, "_written_files", None) or {}
        f_ = files.get(self.content_key(args[0], st))
        if f_ is None:
            raise Unsupported("written_file: no raster was opened for writing under that path (line %d)" % n.lineno)
        return f_

    def m_write(self, recv, args, kw, st, n):
        """writer.write(a2d, band): band `band` (1-based) of the file takes the array's values"""
        if not (isinstance(recv, tuple) and recv and isinstance(recv[0], str) and recv[0] == "rasterwriter"):
            raise Unsupported(".write on %r (line %d)" % (type(recv), n.lineno))
        if args and isinstance(args[0], tuple) and args[0] and isinstance(args[0][0], str) and args[0][0] == "sview":
            args = [self.sview_to_lazy(args[0])] + list(args[1:])
        if len(args) != 2 or kw or not is_arr(args[0]) or len(shape_of(args[0])) != 2:
            raise Unsupported("writer.write form: only write(<2-D array>, <band>) is modelled, got %s (line %d)"
                              % ([type(a_).__name__ + (str(len(shape_of(a_))) if is_arr(a_) else "") for a_ in args], n.lineno))
        f_ = recv[2]
        a, band = args[0], zi(to_int(args[1]))
        cnt, hh, ww = [zi(s_) for s_ in f_.shape]
        sh = shape_of(a)
        if not self.spec:
            self.emit(st, "pre@call", "write.L%d" % n.lineno, z3.And(band >= 1, band <= cnt, zi(sh[0]) == hh, zi(sh[1]) == ww), n,
                      "the band index is within the file's count and the array has the file's size (rasterio raises otherwise)")
        src = frozen(a, st)
        old = st.heap[f_.cell]
        from .state import fresh_array_term
        K = fresh_array_term("file.k", 3, fl.FK)
        V = fresh_array_term("file.v", 3, z3.RealSort())
        q = [z3.Int("wq%d!" % k_) for k_ in range(3)]
        v = fl.F(_num(elem(src, [q[1], q[2]], st)))
        hit = q[0] == band - 1
        st.assume(z3.ForAll(q, zsel(K, q) == z3.If(hit, v.k, zsel(old[0], q)), patterns=[zsel(K, q)]))
        st.assume(z3.ForAll(q, zsel(V, q) == z3.If(hit, v.v, zsel(old[1], q)), patterns=[zsel(V, q)]))
        st.heap[f_.cell] = (K, V)
        return None

    def m_read(self, recv, args, kw, st, n):
        if not (isinstance(recv, tuple) and recv and isinstance(recv[0], str) and recv[0] == "rasterfile"):
            raise Unsupported(".read on %r (line %d)" % (type(recv), n.lineno))
        key = ("read", self.content_key(recv[1], st), tuple(self.content_key(a, st) for a in args),
               self.content_key(kw.get("window"), st))
        cache = getattr(self, "_read_cache", None)
        if cache is None:
            cache = self._read_cache = {}
        if key not in cache:
            from .state import fresh_of_type
            a = fresh_of_type(st, "raster_read", "i16[:,:]", None)
            self.local_cells.add(a.cell)
            # the file's content does not depend on the program state: the array is frozen (readable from every state)
            a = SArr(a.cell, a.dt, a.shape, (), a.name, snap=st.heap[a.cell])
            cache[key] = a
            for s_ in a.shape:
                self.axioms.append(zi(s_) >= 0)
            if kw.get("window") is None and isinstance(recv[1], (str, SStr)):
                # a whole band: (height, width) of the file
                self.axioms.append(zi(a.shape[0]) == zi(self.e_Attribute(ast.Attribute(value=_Lit(recv), attr="height", ctx=ast.Load(), lineno=n.lineno, col_offset=0), st)))
                self.axioms.append(zi(a.shape[1]) == zi(self.e_Attribute(ast.Attribute(value=_Lit(recv), attr="width", ctx=ast.Load(), lineno=n.lineno, col_offset=0), st)))
        return cache[key]

    def provable(self, cond, st, ms=2000):
        c = simp_bool(cond)
        if isinstance(c, bool):
            return c
        sv = z3.Solver()
        sv.set("timeout", ms)
        sv.add(list(st.pc) + [z3.Not(c)])
        return sv.check() == z3.unsat

    def b_numpy_setdiff1d(self, args, kw, st, n):
        """np.setdiff1d(np.arange(n), np.where(m)) for a 1-D mask m over range(n): the positions where m does not hold"""
        a, w = args
        if isinstance(w, tuple) and len(w) == 1:
            w = w[0]
        if isinstance(w, WhereComp):
            w = w.w
        if not (isinstance(a, LArr) and getattr(a, "arange", None) and isinstance(w, WhereIdx) and len(w.mask.shape) == 1):
            raise Unsupported("np.setdiff1d form (line %d)" % n.lineno)
        lo, hi, step = a.arange
        if not (isinstance(lo, int) and lo == 0 and step == 1 and self.provable(zi(hi) == zi(w.mask.shape[0]), st)):
            raise Unsupported("np.setdiff1d: first operand must be np.arange(len(mask)) (line %d)" % n.lineno)
        m = w.mask
        notm = LArr("b", m.shape, lambda ix, st2, m=m: bnot(as_bool(m.get(ix, st2))), None, "not-selected")
        return Gath(notm, lambda ix, st2: zi(ix[0]), "i")

    # ------------------------------------------------------------ scatters
    def scatter(self, arr, mask, valfn, st, node):
        """arr[sel] = values : a'[i] = If(mask(i), val(i), a[i])"""
        if not isinstance(arr, SArr):
            raise Unsupported("scatter into a computed array (line %d)" % node.lineno)
        if not self.frame_ok(arr):
            self.emit(st, "frame", "L%d" % node.lineno, False, node, "masked store to %s which is not in assigns" % arr.name)
        nd = len(arr.shape)
        q = [z3.Int("s%d!" % k) for k in range(nd)]
        before = st.heap[arr.cell]
        old = SArr(arr.cell, arr.dt, arr.shape, arr.fixed, arr.name, snap=before)
        havoc_cell(st, arr, arr.name or "sc")
        after = st.heap[arr.cell]
        view_idx = q[len(arr.fixed):]
        m = zb(as_bool(mask.get(view_idx, st)))
        inside = z3.And(*([m] + [q[k] == zi(f) for k, f in enumerate(arr.fixed)] +
                          [z3.And(x >= 0, x < zi(s_)) for x, s_ in zip(view_idx, arr.view_shape())]))
        val = valfn(view_idx, st, old)
        if arr.dt == "f":
            fv = fl.F(_num(val)) if not isinstance(val, SFloat) else val
            st.assume(z3.ForAll(q, zsel(after[0], q) == z3.If(inside, fv.k, zsel(before[0], q)), patterns=[zsel(after[0], q)]))
            st.assume(z3.ForAll(q, zsel(after[1], q) == z3.If(inside, fv.v, zsel(before[1], q)), patterns=[zsel(after[1], q)]))
        else:
            st.assume(z3.ForAll(q, zsel(after, q) == z3.If(inside, coerce_scalar(val, arr.dt), zsel(before, q)), patterns=[zsel(after, q)]))

    def assign_target(self, t, v, st, s=None):
        if isinstance(t, ast.Subscript):
            base = self.eval(t.value, st)
            if isinstance(base, SArr):
                idx = self.index_list(t.slice, st)
                m = self.full_mask(base, idx, st, t) if any(not is_int(i) and not (isinstance(i, tuple) and i and i[0] == "slice")
                                                             for i in idx) else None
                if m is not None:
                    if isinstance(v, Gath):
                        if v.mask is not m and not sel_compatible(v, m):
                            raise Unsupported("scatter of a gather over another selection (line %d)" % t.lineno)
                        self.scatter(base, m, lambda ix, st2, old, v=v, m=m: gval(v, ix, st2, m), st, t)
                    elif is_arr(v):
                        raise Unsupported("scatter of an array value (line %d)" % t.lineno)
                    else:
                        self.scatter(base, m, lambda ix, st2, old, v=v: v, st, t)
                    return
            if isinstance(base, SDs):
                k = self.eval(t.slice, st)
                if isinstance(k, str):
                    if isinstance(v, (SArr, LArr)):
                        v = SData(v, name=k)
                    if isinstance(v, SData):
                        self.alignment_obligations(base, v, st, t)
                        if v.owner is None:
                            v.owner = base
                    base.vars[k] = v
                    return
            from .lazy import _Map
            if isinstance(base, _Map) and base.name.endswith(".attrs"):
                k = self.eval(t.slice, st)
                if isinstance(k, str):
                    base.d[k] = v   # dataset attribute (metadata) store
                    return
            if isinstance(base, _Map) and base.name.endswith(".coords"):
                k = self.eval(t.slice, st)
                if isinstance(k, str):
                    base.d[k] = SData(self.coord_array(v, st, t), name=k)   # ds.coords[name] = labels
                    return
            return super().assign_target(ast.Subscript(value=_Lit(base), slice=t.slice, ctx=t.ctx, lineno=t.lineno, col_offset=0), v, st, s)
        if isinstance(t, ast.Attribute):
            base = self.eval(t.value, st)
            if isinstance(base, tuple) and base and isinstance(base[0], str) and base[0] == "rasterwriter":
                meta = getattr(self, "_written_meta", None)
                if meta is None:
                    meta = self._written_meta = {}
                meta[(id(base[2]), t.attr)] = v     # file metadata (band descriptions ...): recorded, not part of the pixel contents
                return
            if isinstance(base, SDs) and t.attr == "attrs":
                from .lazy import _Map
                base.attrs = dict(v.d) if isinstance(v, _Map) else dict(v)  # xarray copies the mapping
                return
            return super().assign_target(ast.Attribute(value=_Lit(base), attr=t.attr, ctx=t.ctx, lineno=t.lineno, col_offset=0), v, st, s)
        if isinstance(t, (ast.Tuple, ast.List)) and isinstance(v, WhereIdx):
            if len(t.elts) != len(v):
                raise Unsupported("unpacking np.where (line %d)" % t.lineno)
            for k, tt in enumerate(t.elts):
                self.assign_target(tt, WhereComp(v, k), st, s)
            return
        return super().assign_target(t, v, st, s)

    def s_AugAssign(self, s, st):
        t = s.target
        if isinstance(t, ast.Subscript):
            base = self.eval(t.value, st)
            if isinstance(base, SDs):
                # ds["v"] op= array : the DataArray is updated in place (same buffer), element by element
                k = self.eval(t.slice, st)
                tgt = base.vars.get(k) if isinstance(k, str) else None
                rhs = self.eval(s.value, st)
                rhs = rhs.arr if isinstance(rhs, SData) else rhs
                if tgt is not None and isinstance(tgt.arr, SArr) and (is_arr(rhs) or is_int(rhs) or is_float(rhs)):
                    arr = tgt.arr
                    if is_arr(rhs):
                        if len(shape_of(rhs)) != len(shape_of(arr)):
                            raise Unsupported("dataset variable op= with broadcasting (line %d)" % s.lineno)
                        if not self.spec:
                            self.emit(st, "shape", "L%d" % s.lineno, band(*[simp_bool(zi(a) == zi(b)) for a, b in zip(shape_of(arr), shape_of(rhs))]),
                                      s, "operands of the in-place update have the same shape")
                        rhs = frozen(rhs, st)
                    op = BINOPS[type(s.op)]
                    full = LArr("b", shape_of(arr), lambda ix, st2: True, None, "all")

                    def val(ix, st2, old, rhs=rhs, op=op):
                        cur = array_read(st2, old, ix)
                        r = elem(rhs, ix, st2) if is_arr(rhs) else rhs
                        if is_boolv(r):
                            r = to_int(r)
                        if old.dt.startswith("u"):
                            r = coerce_scalar(r, old.dt)
                        elif old.dt == "i" and is_bv(r):
                            r = z3.BV2Int(r)
                        return arith(op, cur, r, None, None)
                    self.scatter(arr, full, val, st, t)
                    return [(st, "normal", None)]
                raise Unsupported("augassign into a dataset variable of this form (line %d)" % s.lineno)
            if isinstance(base, SArr):
                idx = self.index_list(t.slice, st)
                if any(not is_int(i) and not (isinstance(i, tuple) and i and i[0] == "slice") for i in idx):
                    m = self.full_mask(base, idx, st, t)
                    if m is not None:
                        rhs = self.eval(s.value, st)
                        op = BINOPS[type(s.op)]
                        if is_arr(rhs):
                            raise Unsupported("masked op= with an array operand (line %d)" % s.lineno)
                        if isinstance(rhs, Gath) and not sel_compatible(rhs, m):
                            raise Unsupported("masked op= with a gather over another selection (line %d)" % s.lineno)
                        spec = self.spec

                        def val(ix, st2, old, rhs=rhs, op=op, m=m):
                            cur = array_read(st2, old, ix)
                            r = gval(rhs, ix, st2, m) if isinstance(rhs, Gath) else rhs
                            if old.dt.startswith("u"):
                                r = coerce_scalar(r, old.dt)
                            return arith(op, cur, r, None, None)
                        self.scatter(base, m, val, st, t)
                        return [(st, "normal", None)]
                s = ast.AugAssign(target=ast.Subscript(value=_Lit(base), slice=t.slice, ctx=t.ctx, lineno=t.lineno, col_offset=0),
                                  op=s.op, value=s.value, lineno=s.lineno, col_offset=0)
        return super().s_AugAssign(s, st)

    # ------------------------------------------------------------ numpy functions
    def b_numpy_where(self, args, kw, st, n):
        if len(args) == 1:
            m = args[0]
            if isinstance(m, SArr):
                m = frozen(m, st)
                m = LArr("b", shape_of(m), lambda ix, st2, m=m: as_bool(elem(m, ix, st2)), None, "truth")
            if not (isinstance(m, LArr) and m.dt == "b"):
                raise Unsupported("np.where of a non-boolean array (line %d)" % n.lineno)
            return WhereIdx(m)
        c, x, y = args
        if isinstance(c, Gath):
            for o in (x, y):
                if isinstance(o, Gath):
                    self.same_mask(c, o, n)

            def val(ix, st2, c=c, x=x, y=y):
                xv = x.val(ix, st2) if isinstance(x, Gath) else x
                yv = y.val(ix, st2) if isinstance(y, Gath) else y
                return merge(as_bool(c.val(ix, st2)), xv, yv)
            dt = x.dt if isinstance(x, Gath) else (y.dt if isinstance(y, Gath) else "i")
            return Gath(c.mask, val, dt)
        if is_arr(c):
            cs, xs, ys = (frozen(v, st) for v in (c, x, y))
            nd = len(shape_of(c))
            dt = arr_dt(x) if is_arr(x) else (arr_dt(y) if is_arr(y) else ("f" if is_float(x) or is_float(y) else "i"))
            return LArr(dt, shape_of(c), lambda ix, st2: merge(as_bool(elem(cs, ix, st2)), belem(xs, ix, st2, nd), belem(ys, ix, st2, nd)),
                        None, "where3")
        raise Unsupported("np.where form (line %d)" % n.lineno)

    def b_numpy_isnan(self, args, kw, st, n):
        v = args[0]
        if is_arr(v):
            src = frozen(v, st)
            return LArr("b", shape_of(v), lambda ix, st2, src=src: (fl.isnan(elem(src, ix, st2)) if is_float(elem(src, ix, st2)) else False),
                        None, "isnan")
        if isinstance(v, Gath):
            return derive(v, lambda ix, st2, v=v: (fl.isnan(v.val(ix, st2)) if is_float(v.val(ix, st2)) else False), "b")
        return super().b_numpy_isnan(args, kw, st, n)

    def b_numpy_isfinite(self, args, kw, st, n):
        v = args[0]
        if is_arr(v):
            src = frozen(v, st)
            return LArr("b", shape_of(v), lambda ix, st2, src=src: (fl.isfin(elem(src, ix, st2)) if is_float(elem(src, ix, st2)) else True),
                        None, "isfinite")
        if isinstance(v, Gath):
            return derive(v, lambda ix, st2, v=v: (fl.isfin(v.val(ix, st2)) if is_float(v.val(ix, st2)) else True), "b")
        if is_float(v):
            return fl.isfin(fl.F(v))
        return True

    def _quant_bool(self, a, st, n, exists):
        if not (is_arr(a) and arr_dt(a) == "b"):
            raise Unsupported(".any()/.all() of a non-boolean array (line %d)" % n.lineno)
        src = frozen(a, st)
        shp = shape_of(a)
        q = [z3.Int(fresh_name("qa")) for _ in shp]
        inb = z3.And(*[z3.And(x >= 0, x < zi(s_)) for x, s_ in zip(q, shp)])
        body = zb(as_bool(elem(src, q, st)))
        return z3.Exists(q, z3.And(inb, body)) if exists else z3.ForAll(q, z3.Implies(inb, body))

    def contains(self, container, item, st, n):
        if is_arr(container) and len(shape_of(container)) == 1 and (isinstance(item, (str, SStr)) or is_int(item)):
            # x in <1-D array>: some element equals x
            i = z3.Int(fresh_name("ci"))
            e = elem(container, [i], st)
            if isinstance(e, SStr) != isinstance(item, (str, SStr)):
                return False
            same = val_eq(e, item) if isinstance(e, SStr) else compare("==", _num(e), item, True)
            return z3.Exists([i], z3.And(i >= 0, i < zi(shape_of(container)[0]), zb(as_bool(same))))
        return super().contains(container, item, st, n)

    def m_issubset(self, recv, args, kw, st, n):
        """{"a", "b"}.issubset(array of labels): every constant occurs somewhere in the array"""
        if not isinstance(recv, (set, frozenset)) or len(args) != 1:
            raise Unsupported("issubset form (line %d)" % n.lineno)
        a = args[0].arr if isinstance(args[0], SData) else args[0]
        if isinstance(a, (set, frozenset)):
            return recv.issubset(a)
        if not is_arr(a) or len(shape_of(a)) != 1:
            raise Unsupported("issubset of %r (line %d)" % (type(a), n.lineno))
        parts = []
        for c in sorted(recv, key=str):
            i = z3.Int(fresh_name("ss"))
            e = elem(a, [i], st)
            same = val_eq(e, c) if isinstance(e, SStr) or isinstance(c, str) else compare("==", _num(e), c, True)
            if isinstance(e, SStr) != isinstance(c, str):
                same = False
            parts.append(z3.Exists([i], z3.And(i >= 0, i < zi(shape_of(a)[0]), zb(as_bool(same)))))
        return z3.And(*parts) if parts else True

    def m_sel(self, recv, args, kw, st, n):
        """dataarray.sel(<dim>=<label>): the slice at THE position of the label along that dimension.  That the label occurs is
        an obligation (xarray raises KeyError otherwise); with a label occurring once the position is determined"""
        if not isinstance(recv, SData) or args or len(kw) != 1:
            raise Unsupported(".sel form (line %d)" % n.lineno)
        (dim, label), = kw.items()
        dims = recv.dims.items if isinstance(recv.dims, SList) else recv.dims
        if dims is None or dim not in dims:
            raise Unsupported(".sel on a DataArray without that declared dimension (line %d)" % n.lineno)
        own = getattr(recv, "coords", None) or {}
        lab = own.get(dim) or (recv.owner.coords.get(dim) if recv.owner is not None else None)
        if lab is None:
            raise Unsupported(".sel without a coordinate for %s (line %d)" % (dim, n.lineno))
        lab = lab.arr if isinstance(lab, SData) else lab
        k = list(dims).index(dim)
        nl = zi(shape_of(lab)[0])
        i = z3.Int(fresh_name("sl"))

        def is_label(ix):
            e = elem(lab, [ix], st)
            if isinstance(e, SStr) != isinstance(label, (str, SStr)):
                return z3.BoolVal(False)
            return zb(as_bool(val_eq(e, label) if isinstance(e, SStr) else compare("==", _num(e), label, True)))
        if not self.spec:
            self.emit(st, "pre@call", "sel.%s.L%d" % (dim, n.lineno), z3.Exists([i], z3.And(i >= 0, i < nl, is_label(i))), n,
                      "the label selected along %s occurs in its coordinate (xarray raises KeyError otherwise)" % dim)
        pos = z3.Int(fresh_name("selpos"))
        st.assume(z3.And(pos >= 0, pos < nl, is_label(pos)))
        st.assume(z3.ForAll([i], z3.Implies(z3.And(i >= 0, i < pos), z3.Not(is_label(i)))))
        src = frozen(recv.arr, st)
        shp = [s_ for j, s_ in enumerate(shape_of(recv.arr)) if j != k]
        out = LArr(arr_dt(recv.arr), shp, (lambda ix, st2, src=src, k=k, pos=pos: elem(src, list(ix[:k]) + [pos] + list(ix[k:]), st2)),
                   None, name="sel")
        return SData(out, dims=[d_ for d_ in dims if d_ != dim], name=recv.name, owner=recv.owner)

    def m_any(self, recv, args, kw, st, n):
        if args or kw:
            raise Unsupported(".any(axis) (line %d)" % n.lineno)
        return self._quant_bool(recv, st, n, True)

    def m_all(self, recv, args, kw, st, n):
        if args or kw:
            raise Unsupported(".all(axis) (line %d)" % n.lineno)
        return self._quant_bool(recv, st, n, False)

    def b_numpy_logical_or(self, args, kw, st, n):
        return self.elementwise("|", args[0], args[1], st)

    def b_numpy_logical_and(self, args, kw, st, n):
        return self.elementwise("&", args[0], args[1], st)

    def b_numpy_min(self, args, kw, st, n):
        """np.min(boolean array, axis=k): 'all' along the axis"""
        a = args[0]
        axis = kw.get("axis", args[1] if len(args) > 1 else None)
        if is_arr(a) and arr_dt(a) == "b" and isinstance(axis, int):
            src = frozen(a, st)
            shape = list(shape_of(a))
            if axis < 0:
                axis += len(shape)
            out = shape[:axis] + shape[axis + 1:]
            ext = shape[axis]

            def get(ix, st2, src=src, axis=axis, ext=ext):
                k = z3.Int(fresh_name("k"))
                full = list(ix[:axis]) + [k] + list(ix[axis:])
                return z3.ForAll([k], z3.Implies(z3.And(k >= 0, k < zi(ext)), zb(as_bool(elem(src, full, st2)))))
            return LArr("b", out, get, None, "all")
        raise Unsupported("np.min form (line %d)" % n.lineno)

    def b_numpy_max(self, args, kw, st, n):
        """np.max(boolean array, axis=k): 'any' along the axis"""
        a = args[0]
        axis = kw.get("axis", args[1] if len(args) > 1 else None)
        if is_arr(a) and arr_dt(a) == "b" and isinstance(axis, int):
            src = frozen(a, st)
            shape = list(shape_of(a))
            if axis < 0:
                axis += len(shape)
            out = shape[:axis] + shape[axis + 1:]
            ext = shape[axis]

            def get(ix, st2, src=src, axis=axis, ext=ext):
                k = z3.Int(fresh_name("k"))
                full = list(ix[:axis]) + [k] + list(ix[axis:])
                return z3.Exists([k], z3.And(k >= 0, k < zi(ext), zb(as_bool(elem(src, full, st2)))))
            return LArr("b", out, get, None, "any")
        raise Unsupported("np.max form (line %d)" % n.lineno)

    b_numpy_any = b_numpy_max
    b_numpy_all = b_numpy_min

    def b_numpy_array(self, args, kw, st, n):
        v = args[0]
        if isinstance(v, SList) and v.items and all(is_arr(x) for x in v.items):
            # np.array([a0, a1, ...]) of same-shape arrays: stacked along a new leading axis
            items = [frozen(x, st) for x in v.items]
            shp0 = shape_of(items[0])
            if not self.spec:
                for x in items[1:]:
                    if len(shape_of(x)) != len(shp0):
                        raise Unsupported("np.array of arrays of different rank (line %d)" % n.lineno)
                    g_ = z3.And(*[zi(a_) == zi(b_) for a_, b_ in zip(shape_of(x), shp0)])
                    if simp_bool(g_) is not True:
                        self.emit(st, "pre@call", "stack.L%d" % n.lineno, g_, n, "np.array([...]): the stacked arrays have the same shape")

            def get(ix, st2, items=items):
                r = elem(items[-1], list(ix[1:]), st2)
                for j in range(len(items) - 2, -1, -1):
                    r = merge(zi(ix[0]) == j, elem(items[j], list(ix[1:]), st2), r)
                return r
            return LArr(arr_dt(items[0]), [len(items)] + list(shp0), get, None, name="stack")
        return super().b_numpy_array(args, kw, st, n)

    def b_numpy_full(self, args, kw, st, n):
        fill = args[1]
        if "dtype" not in kw and len(args) < 3 and isinstance(fill, (int, bool)) and not isinstance(fill, float):
            kw = dict(kw, dtype=SFunc(name="numpy.bool_" if isinstance(fill, bool) else "numpy.int64"))
        return super().b_numpy_full(args, kw, st, n)

    # ------------------------------------------------------------ xarray constructors
    def materialize(self, a, st, name="m"):
        """a computed (lazy) array becomes a heap array holding its values now -- needed once it can be stored into"""
        if not (isinstance(a, LArr) and a.base is None):
            return a
        from .state import alloc_array
        dt = a.dt if a.dt in ("f", "i", "b", "r") or a.dt.startswith("u") else "i"
        arr = alloc_array(st, name, dt, list(a.shape))
        arr.name = name
        self.local_cells.add(arr.cell)
        q = [z3.Int("mq%d!" % k) for k in range(len(a.shape))]
        v = a.get(q, st)
        h = st.heap[arr.cell]
        if dt == "f":
            fv = fl.F(_num(v)) if not isinstance(v, SFloat) else v
            st.assume(z3.ForAll(q, zsel(h[0], q) == fv.k, patterns=[zsel(h[0], q)]))
            st.assume(z3.ForAll(q, zsel(h[1], q) == fv.v, patterns=[zsel(h[1], q)]))
        else:
            st.assume(z3.ForAll(q, zsel(h, q) == coerce_scalar(v, dt), patterns=[zsel(h, q)]))
        return arr

    def b_scipy_ndimage_binary_dilation(self, args, kw, st, n):
        """scipy.ndimage.binary_dilation(a, structure=np.ones((w, w)), iterations=1) for an ODD w (ASSUMED contract): out[y, x]
        iff some a[p, q] holds with |p - y| <= w // 2, |q - x| <= w // 2 inside the array (border_value 0)"""
        a = args[0]
        stru = kw.get("structure", args[1] if len(args) > 1 else None)
        it_ = kw.get("iterations", 1)
        if not (is_arr(a) and arr_dt(a) == "b" and len(shape_of(a)) == 2 and stru is not None and is_arr(stru)
                and len(shape_of(stru)) == 2 and it_ == 1):
            raise Unsupported("binary_dilation form (line %d)" % n.lineno)
        w0, w1 = shape_of(stru)
        if not self.spec:
            self.emit(st, "pre@call", "binary_dilation.odd.L%d" % n.lineno,
                      z3.And(zi(w0) == zi(w1), zi(w0) % 2 == 1, zi(w0) >= 1), n,
                      "the structuring element is a square of odd size (the assumed contract of binary_dilation is stated for it)")
        src = frozen(a, st)
        n0, n1 = shape_of(a)
        r = zi(w0) / 2

        def get(ix, st2, src=src, n0=n0, n1=n1, r=r):
            p, q = z3.Int(fresh_name("dp")), z3.Int(fresh_name("dq"))
            y, x = zi(ix[0]), zi(ix[1])
            return z3.Exists([p, q], z3.And(p >= y - r, p <= y + r, q >= x - r, q <= x + r, p >= 0, p < zi(n0), q >= 0, q < zi(n1),
                                            zb(as_bool(elem(src, [p, q], st2)))))
        return LArr("b", [n0, n1], get, None, name="dilation")

    b_binary_dilation = b_scipy_ndimage_binary_dilation

    def b_xarray_DataArray(self, args, kw, st, n):
        data = args[0] if args else kw.get("data")
        if data is None and not args and not kw:
            return SData(None, dims=[])     # xr.DataArray(): an empty placeholder
        if not (is_arr(data) or isinstance(data, SList)):
            raise Unsupported("xr.DataArray of %r (line %d)" % (type(data), n.lineno))
        if isinstance(data, LArr):
            data = self.materialize(data, st, "dataarray")
        dims = kw.get("dims")
        if isinstance(dims, SList):
            dims = list(dims.items)
        coords = kw.get("coords")
        cmap = None
        if coords is not None:
            if isinstance(coords, SList):
                coords = list(coords.items)
            if isinstance(coords, (list, tuple)) and dims is None and coords and all(
                    isinstance(c, tuple) and len(c) == 2 and isinstance(c[0], str) for c in coords):
                dims = [c[0] for c in coords]          # coords=[(dim, labels), ...]
                coords = [c[1] for c in coords]
            if isinstance(coords, (list, tuple)):
                if dims is None or len(dims) != len(coords) or not all(isinstance(d, str) for d in dims):
                    raise Unsupported("xr.DataArray(coords=[...]) without matching dims (line %d)" % n.lineno)
                cmap = {d: self.coord_array(c, st, n) for d, c in zip(dims, coords)}
            elif isinstance(coords, dict):
                cmap = {d: self.coord_array(c, st, n) for d, c in coords.items()}
            else:
                raise Unsupported("xr.DataArray coords form (line %d)" % n.lineno)
            shp = [len(data.items)] if isinstance(data, SList) else shape_of(data)
            for k_, d in enumerate(dims or []):
                if d in cmap and not self.spec:
                    self.emit(st, "pre@call", "coords.%s.L%d" % (d, n.lineno), zi(shape_of(cmap[d])[0]) == zi(shp[k_]), n,
                              "the %s coordinate has one label per element of that axis (xarray raises otherwise)" % d)
        return SData(data, dims=dims, coords=cmap)

    def coord_array(self, c, st, n):
        """a coordinate passed to xarray: DataArray / ndarray / list of labels -> an array"""
        if isinstance(c, SData):
            return c.arr
        if is_arr(c):
            return c
        if isinstance(c, SList):
            items = list(c.items)
            if items and all(isinstance(x, (str, SStr)) for x in items):
                from .vals import intern_str
                toks = [x.tok if isinstance(x, SStr) else z3.IntVal(intern_str(x)) for x in items]

                def get(ix, st2, toks=toks):
                    r = toks[-1]
                    for j in range(len(toks) - 2, -1, -1):
                        r = z3.If(zi(ix[0]) == j, toks[j], r)
                    return SStr(r)
                return LArr("s", [len(items)], get, None, name="labels")
        raise Unsupported("coordinate labels %r (line %d)" % (type(c), n.lineno))

    def b_numpy_append(self, args, kw, st, n):
        """np.append(a, x) for a 1-D a and a scalar x: a new array, a's values then x"""
        a, x = args[0], args[1]
        if isinstance(a, SData):
            a = a.arr
        if not is_arr(a) or len(shape_of(a)) != 1 or is_arr(x) or isinstance(x, (SList, tuple, list)) or kw:
            raise Unsupported("np.append form (line %d)" % n.lineno)
        src = frozen(a, st)
        n0 = shape_of(a)[0]
        dt = arr_dt(a)
        if dt == "s" and not isinstance(x, (str, SStr)):
            raise Unsupported("np.append of a non-string to an array of strings (line %d)" % n.lineno)
        if dt != "s" and isinstance(x, (str, SStr)):
            raise Unsupported("np.append of a string to a numeric array (line %d)" % n.lineno)

        def get(ix, st2, src=src, n0=n0, x=x):
            from .expr import merge
            return merge(zi(ix[0]) < zi(n0), elem(src, ix, st2), x)
        return LArr(dt, [z3.simplify(zi(n0) + 1) if not isinstance(n0, int) else n0 + 1], get, None, name="append")

    def m_drop_dims(self, recv, args, kw, st, n):
        """ds.drop_dims(d): a NEW dataset without the variables that have dimension d and without its coordinate; the other
        variables and coordinates are the same objects (xarray does not copy the buffers)"""
        if not isinstance(recv, SDs) or len(args) != 1 or not isinstance(args[0], str):
            raise Unsupported("drop_dims form (line %d)" % n.lineno)
        d = args[0]
        keep = {}
        for k_, v in recv.vars.items():
            if v.dims is None:
                raise Unsupported("drop_dims on a dataset whose variable %r has no declared dims (line %d)" % (k_, n.lineno))
            if d not in (v.dims.items if isinstance(v.dims, SList) else v.dims):
                keep[k_] = v
        coords = {k_: v for k_, v in recv.coords.items() if k_ != d}
        out = SDs(recv.name + ".drop_dims", keep, coords, dict(recv.attrs), {k_: v for k_, v in recv.sizes.items() if k_ != d})
        return out

    b_xr_DataArray = b_xarray_DataArray

    def b_xarray_Dataset(self, args, kw, st, n):
        """xr.Dataset({name: (dims, array) | DataArray}, coords={...}) -- a new dataset object"""
        variables, coords = {}, {}
        dv = args[0] if args else kw.get("data_vars", {})
        if not isinstance(dv, dict):
            raise Unsupported("xr.Dataset form (line %d)" % n.lineno)
        for k, v in dv.items():
            if isinstance(v, tuple) and len(v) == 2:
                variables[k] = SData(v[1], dims=v[0], name=k)
            elif isinstance(v, SData):
                variables[k] = v
            else:
                raise Unsupported("xr.Dataset variable %r (line %d)" % (k, n.lineno))
        for k, v in (kw.get("coords") or {}).items():
            coords[k] = v if isinstance(v, SData) else SData(v, name=k)
        self._ds_count = getattr(self, "_ds_count", 0) + 1
        return SDs("dataset%d" % self._ds_count, variables, coords, {}, {})

    def alignment_obligations(self, dst, v, st, node):
        """ds[k] = DataArray labelled by another dataset: xarray aligns by coordinate LABELS (reindexing, NaN-filling, dtype
        change when they differ).  The model assigns positionally, which is what xarray does exactly when the labels of the
        shared dimensions are equal -- shown here as an obligation, not assumed."""
        src = getattr(v, "owner", None)
        own = getattr(v, "coords", None) or {}
        if self.spec:
            return
        vd = v.dims.items if isinstance(v.dims, SList) else (v.dims or ())
        dims = [d for d in vd if isinstance(d, str)] if (vd and (own or src is not None)) else ["row", "col"]
        for dim in dims:
            b = own.get(dim)
            if b is None and src is not None and src is not dst:
                b = src.coords.get(dim)
            a = dst.coords.get(dim)
            if b is None:
                continue
            if a is None:
                # a dimension the dataset does not have yet: the DataArray brings its coordinate along
                dst.coords[dim] = b if isinstance(b, SData) else SData(b, name=dim, owner=dst)
                continue
            if a is b:
                continue
            aa, bb = a.arr if isinstance(a, SData) else a, b.arr if isinstance(b, SData) else b
            if aa is bb:
                continue
            if not (is_arr(aa) and is_arr(bb)):
                raise Unsupported("coordinate labels of %s are not arrays (line %d)" % (dim, node.lineno))
            i = z3.Int(fresh_name("al"))
            na, nb = zi(shape_of(aa)[0]), zi(shape_of(bb)[0])
            ea, eb = elem(aa, [i], st), elem(bb, [i], st)
            same = (ea.tok == eb.tok) if isinstance(ea, SStr) and isinstance(eb, SStr) else compare("==", _num(ea), _num(eb), True)
            self.emit(st, "pre@call", "align.%s.L%d" % (dim, node.lineno),
                      z3.And(na == nb, z3.ForAll([i], z3.Implies(z3.And(i >= 0, i < na), zb(as_bool(same))))), node,
                      "the %s labels of the assigned DataArray equal the dataset's (xarray aligns by label)" % dim)

    def copy_array(self, a, st):
        if isinstance(a, SArr):
            from .state import new_cell
            cid = new_cell()
            st.heap[cid] = a.snap if a.snap is not None else st.heap[a.cell]
            self.local_cells.add(cid)
            return SArr(cid, a.dt, a.shape, a.fixed, "copy_" + (a.name or "a"))
        return a

    def copy_value(self, v, st):
        if isinstance(v, SData):
            return SData(self.copy_array(v.arr, st), v.dims, v.name, getattr(v, "owner", None))
        if is_arr(v):
            return self.copy_array(v, st)
        if isinstance(v, SDs):
            return SDs(v.name + "_copy", {k: self.copy_value(x, st) for k, x in v.vars.items()},
                       {k: self.copy_value(x, st) for k, x in v.coords.items()}, dict(v.attrs), dict(v.sizes))
        return v

    def b_copy_deepcopy(self, args, kw, st, n):
        return self.copy_value(args[0], st)

    def m_copy(self, recv, args, kw, st, n):
        return self.copy_value(recv, st)

    def call_method(self, recv, meth, args, kwargs, st, n):
        if isinstance(recv, (SData, SDs)) and meth == "copy":
            return self.copy_value(recv, st)
        return super().call_method(recv, meth, args, kwargs, st, n)


def _same_selection(m1, m2):
    return m1 is m2 or mask_root(m1) is mask_root(m2)
