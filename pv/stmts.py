"""Statements: forward symbolic execution, one path at a time; loops by invariant (never unrolled unless asked)."""
import ast
import z3
from . import fl
from .fl import SFloat
from .vals import (SArr, SList, SObj, SFunc, SStr, Unsupported, fresh_int, fresh_bool, fresh_float, fresh_bv, SYMLOG, sel)
from .state import (array_write, havoc_cell, coerce_scalar)
from .expr import (is_int, is_boolv, is_bv, is_float, as_bool, to_int, simp_bool, band, bor, bnot, arith, BINOPS)

NORMAL, BREAK, CONTINUE, RETURN, RAISE = "normal", "break", "continue", "return", "raise"


def store_patterns(stmts):
    """array name -> list of index-expression lists of every direct subscript store (None if some store is not a plain
    full index: slices, attribute bases, ...)"""
    pats = {}
    for s in stmts:
        for n in ast.walk(s):
            tg = []
            if isinstance(n, ast.Assign):
                tg = n.targets
            elif isinstance(n, (ast.AugAssign, ast.AnnAssign)):
                tg = [n.target]
            for t in tg:
                for m in ast.walk(t):
                    if isinstance(m, ast.Subscript) and isinstance(m.ctx, ast.Store):
                        if isinstance(m.value, ast.Name):
                            idx = m.slice.elts if isinstance(m.slice, ast.Tuple) else [m.slice]
                            if any(isinstance(i, ast.Slice) for i in idx):
                                pats[m.value.id] = None
                            elif pats.get(m.value.id, []) is not None:
                                pats.setdefault(m.value.id, []).append(idx)
                        else:
                            b = m
                            while isinstance(b, (ast.Subscript, ast.Attribute)):
                                b = b.value
                            if isinstance(b, ast.Name):
                                pats[b.id] = None
    return pats


def assigned_names(stmts):
    """names (incl. loop targets) possibly assigned, and base names of subscript/attribute stores, in a statement list"""
    names, stores, calls = set(), set(), []
    for s in stmts:
        for n in ast.walk(s):
            if isinstance(n, (ast.Assign, ast.AugAssign, ast.AnnAssign, ast.For)):
                tg = n.targets if isinstance(n, ast.Assign) else [n.target]
                for t in tg:
                    for m in ast.walk(t):
                        if isinstance(m, ast.Name) and isinstance(m.ctx, ast.Store):
                            names.add(m.id)
                        elif isinstance(m, ast.Name) and isinstance(n, ast.AugAssign) and m is n.target:
                            names.add(m.id)
                        if isinstance(m, (ast.Subscript, ast.Attribute)) and isinstance(m.ctx, ast.Store):
                            b = m
                            while isinstance(b, (ast.Subscript, ast.Attribute)):
                                b = b.value
                            if isinstance(b, ast.Name):
                                stores.add(b.id)
            if isinstance(n, ast.Call):
                calls.append(n)
    return names, stores, calls


def store_keys(stmts):
    """name -> set of constant dataset keys written through it (name["key"]...[..] = / op=), or None when some store through the
    name does not go through a constant key"""
    out = {}
    for s in stmts:
        for n in ast.walk(s):
            if isinstance(n, (ast.Assign, ast.AugAssign, ast.AnnAssign)):
                tg = n.targets if isinstance(n, ast.Assign) else [n.target]
                for t in tg:
                    for m in ast.walk(t):
                        if isinstance(m, (ast.Subscript, ast.Attribute)) and isinstance(m.ctx, ast.Store):
                            chain = []
                            b = m
                            while isinstance(b, (ast.Subscript, ast.Attribute)):
                                chain.append(b)
                                b = b.value
                            if isinstance(b, ast.Name):
                                first = chain[-1]
                                key = None
                                if isinstance(first, ast.Subscript) and isinstance(first.slice, ast.Constant) and isinstance(first.slice.value, str):
                                    key = first.slice.value
                                if key is None or out.get(b.id, set()) is None:
                                    out[b.id] = None
                                else:
                                    out.setdefault(b.id, set()).add(key)
    return out


class StmtMixin:
    def havoc_value(self, name, v, st):
        if isinstance(v, bool) or (z3.is_expr(v) and z3.is_bool(v)):
            return fresh_bool(name)
        if is_int(v):
            return fresh_int(name)
        if is_float(v):
            return fresh_float(name)
        if is_bv(v):
            return fresh_bv(name, v.size())
        if isinstance(v, tuple):
            return tuple(self.havoc_value("%s.%d" % (name, i), x, st) for i, x in enumerate(v))
        if isinstance(v, SStr) or isinstance(v, str):
            return SStr(fresh_int(name + ".tok"))
        if isinstance(v, SArr):
            return v  # handle unchanged (cell havoc is separate)
        if v is None:
            return None
        if isinstance(v, SList):
            return SList([self.havoc_value("%s[%d]" % (name, i), x, st) for i, x in enumerate(v.items)], v.dt)
        raise Unsupported("havoc of %s : %r" % (name, type(v)))

    def havoc_reachable_arrays(self, hv, v, nm, keys=None):
        """a store through `nm` inside a loop body where nm is a dataset / data array / view: every heap array it can reach
        is unknown at the loop head (for a dataset written only through constant keys: the arrays of those variables)"""
        tn = type(v).__name__
        if tn == "SDs":
            for k, d in v.vars.items():
                if keys is None or k in keys:
                    self.havoc_reachable_arrays(hv, d, nm)
        elif tn == "SData":
            self.havoc_reachable_arrays(hv, v.arr, nm)
        elif tn == "LArr":
            if v.base is not None:
                havoc_cell(hv, v.base[0], nm)
        elif isinstance(v, SArr):
            havoc_cell(hv, v, nm)
        elif isinstance(v, tuple):
            for x in v:
                if isinstance(x, SArr) or type(x).__name__ in ("SDs", "SData", "LArr"):
                    self.havoc_reachable_arrays(hv, x, nm)

    # ------------------------------------------------------------ blocks
    def exec_block(self, stmts, st):
        """-> list of (state, outcome, payload)"""
        states = [st]
        results = []
        for s in stmts:
            nxt = []
            for cur in states:
                for (s2, oc, pl) in self.exec_stmt(s, cur):
                    if oc == NORMAL:
                        nxt.append(s2)
                    else:
                        results.append((s2, oc, pl))
            states = nxt
            if not states:
                break
        for cur in states:
            results.append((cur, NORMAL, None))
        return results

    def exec_stmt(self, s, st):
        self._cur = st
        m = getattr(self, "s_" + type(s).__name__, None)
        if m is None:
            raise Unsupported("statement %s (line %d)" % (type(s).__name__, s.lineno))
        return m(s, st)

    def s_Pass(self, s, st):
        return [(st, NORMAL, None)]

    def s_Delete(self, s, st):
        return [(st, NORMAL, None)]

    def s_Global(self, s, st):
        raise Unsupported("global statement")

    def s_Assert(self, s, st):
        c = as_bool(self.eval(s.test, st))
        self.emit(st, "assert", "L%d" % s.lineno, c, s)
        st.assume(c)
        return [(st, NORMAL, None)]

    def s_Expr(self, s, st):
        if isinstance(s.value, ast.Constant):
            return [(st, NORMAL, None)]
        if isinstance(s.value, ast.Call):
            t = ast.unparse(s.value.func)
            if t.startswith("logging.") or t == "print" or t.startswith("warnings."):
                return [(st, NORMAL, None)]
        r = self.eval(s.value, st)
        if isinstance(r, tuple) and r and r[0] == "__raised__":
            return [(st, RAISE, r[1])]
        return self.after_call_outcomes(st)

    def after_call_outcomes(self, st):
        pend = getattr(self, "_pending", None)
        if pend:
            self._pending = None
            return pend + [(st, NORMAL, None)]
        return [(st, NORMAL, None)]

    def s_Assign(self, s, st):
        v = self.eval(s.value, st)
        for t in s.targets:
            self.assign_target(t, v, st, s)
        return self.after_call_outcomes(st)

    def s_AnnAssign(self, s, st):
        if s.value is not None:
            self.assign_target(s.target, self.eval(s.value, st), st, s)
        return self.after_call_outcomes(st)

    def assign_target(self, t, v, st, s=None):
        if isinstance(t, ast.Name):
            st.vars[t.id] = v
        elif isinstance(t, (ast.Tuple, ast.List)):
            items = v.items if isinstance(v, SList) else v
            if not isinstance(items, (tuple, list)) or len(items) != len(t.elts):
                raise Unsupported("unpacking (line %d)" % t.lineno)
            for tt, vv in zip(t.elts, items):
                self.assign_target(tt, vv, st, s)
        elif isinstance(t, ast.Subscript):
            base = self.eval(t.value, st)
            if isinstance(base, SArr):
                idx = self.index_list(t.slice, st)
                self.array_set(base, idx, v, st, t)
            elif isinstance(base, dict):
                k = self.eval(t.slice, st)
                self.dict_set(base, k, v, st, t)
            elif isinstance(base, SObj):
                self.obj_setitem(base, self.eval(t.slice, st), v, st, t)
            elif isinstance(base, SList):
                i = to_int(self.eval(t.slice, st))
                if not isinstance(i, int):
                    raise Unsupported("list store at symbolic index")
                base.items[i] = v
            else:
                raise Unsupported("store into %r (line %d)" % (type(base), t.lineno))
        elif isinstance(t, ast.Attribute):
            base = self.eval(t.value, st)
            if isinstance(base, SObj):
                self.obj_setattr(base, t.attr, v, st, t)
            elif isinstance(base, SArr) and t.attr == "data":
                raise Unsupported(".data store on array")
            else:
                raise Unsupported("attribute store on %r (line %d)" % (type(base), t.lineno))
        else:
            raise Unsupported("assignment target %s" % type(t).__name__)

    def dict_set(self, base, k, v, st, t):
        raise Unsupported("dict store (line %d)" % t.lineno)

    def obj_setitem(self, base, k, v, st, t):
        self.frame_check_obj(base, "[%r]" % (k,), st, t)
        st.attrs[(base.name, "[%r]" % (k,))] = v

    def obj_setattr(self, base, a, v, st, t):
        self.frame_check_obj(base, a, st, t)
        st.attrs[(base.name, a)] = v

    def frame_check_obj(self, base, a, st, t):
        pass

    def frame_ok(self, arr):
        """is a write to this array cell allowed by the contract's assigns clause?"""
        if self.c is None or self.c.assigns is None:
            return True
        if arr.cell in self.local_cells:
            return True
        return arr.cell in self.assignable_cells

    def array_set(self, arr, idx, v, st, node):
        shape = arr.view_shape()
        if not self.frame_ok(arr):
            self.emit(st, "frame", "L%d" % node.lineno, False, node,
                      "write to %s which is not in assigns(%s)" % (arr.name, ", ".join(self.c.assigns)))
        if any(isinstance(i, tuple) for i in idx) or len(idx) < len(shape):
            return self.array_set_slice(arr, idx, v, st, node)
        norm = [self.norm_index(arr.name, i, s, st, node) for i, s in zip(idx, shape)]
        if st.log is not None:
            st.log.append(("W", arr.cell, tuple(list(arr.fixed) + norm), list(st.pc) + list(self.guard)))
        if arr.dt == "i" and not self.spec:
            self.int_store_range(arr, v, st, node)
        if arr.dt == "r" and not self.spec:
            self.real_store_check(v, st, node)
        array_write(st, arr, norm, v)

    def int_store_range(self, arr, v, st, node):
        pass

    def real_store_check(self, v, st, node):
        """arrays declared r32/r64 hold finite values only: every store proves it"""
        if isinstance(v, SFloat) and not v.fin:
            g = fl.isfin(v)
            self.emit(st, "finite", "L%d" % node.lineno, g, node, "value stored into a finite-real array is finite")
            st.assume(g)

    def array_set_slice(self, arr, idx, v, st, node):
        raise Unsupported("slice assignment (line %d)" % node.lineno)

    def s_AugAssign(self, s, st):
        op = BINOPS[type(s.op)]
        t = s.target
        if isinstance(t, ast.Name):
            cur = self.eval(ast.Name(id=t.id, ctx=ast.Load(), lineno=s.lineno, col_offset=0), st)
            rhs = self.eval(s.value, st)
            if isinstance(cur, SArr):
                return self.array_augassign(cur, op, rhs, st, s)
            self._cur = st
            st.vars[t.id] = arith(op, cur, rhs, self, s)
        elif isinstance(t, ast.Subscript):
            base = self.eval(t.value, st)
            if not isinstance(base, SArr):
                raise Unsupported("augassign into %r (line %d)" % (type(base), s.lineno))
            idx = self.index_list(t.slice, st)
            if any(isinstance(i, tuple) for i in idx) or len(idx) < base.ndim:
                rhs = self.eval(s.value, st)
                return self.array_augassign_slice(base, idx, op, rhs, st, s)
            shape = base.view_shape()
            norm = [self.norm_index(base.name, i, n_, st, t) for i, n_ in zip(idx, shape)]
            from .state import array_read
            if st.log is not None:
                st.log.append(("R", base.cell, tuple(list(base.fixed) + norm), list(st.pc)))
            cur = array_read(st, base, norm)
            rhs = self.eval(s.value, st)
            self._cur = st
            if base.dt.startswith("u"):
                new = arith(op, cur, coerce_scalar(rhs, base.dt), self, s)
            elif base.dt in ("f", "r"):
                new = arith(op, cur, rhs, self, s) if op != "/" else fl.div_array(fl.F(cur), fl.F(rhs) if is_float(rhs) else fl.F(to_int(rhs)))
            else:
                new = arith(op, cur, rhs, self, s)
            if not self.frame_ok(base):
                self.emit(st, "frame", "L%d" % s.lineno, False, s, "write to %s not in assigns" % base.name)
            if st.log is not None:
                st.log.append(("W", base.cell, tuple(list(base.fixed) + norm), list(st.pc)))
            if base.dt == "r":
                self.real_store_check(new, st, s)
            array_write(st, base, norm, new)
        else:
            raise Unsupported("augassign target (line %d)" % s.lineno)
        return [(st, NORMAL, None)]

    def array_augassign(self, arr, op, rhs, st, s):
        raise Unsupported("whole-array augmented assignment (line %d)" % s.lineno)

    def array_augassign_slice(self, arr, idx, op, rhs, st, s):
        raise Unsupported("slice augmented assignment (line %d)" % s.lineno)

    # ------------------------------------------------------------ control
    def s_If(self, s, st):
        c = as_bool(self.eval(s.test, st))
        pend = getattr(self, "_pending", None)
        self._pending = None
        out = list(pend or [])
        if isinstance(c, bool):
            return out + self.exec_block(s.body if c else s.orelse, st)
        c2 = simp_bool(c)
        if isinstance(c2, bool):
            return out + self.exec_block(s.body if c2 else s.orelse, st)
        st_t = st.fork()
        st_t.assume(c)
        st_f = st
        st_f.assume(z3.Not(c))
        if self.feasible(st_t):
            out += self.exec_block(s.body, st_t)
        if self.feasible(st_f):
            out += self.exec_block(s.orelse, st_f)
        return out

    def s_Return(self, s, st):
        v = None if s.value is None else self.eval(s.value, st)
        return [(st, RETURN, v)]

    def s_Break(self, s, st):
        return [(st, BREAK, None)]

    def s_Continue(self, s, st):
        return [(st, CONTINUE, None)]

    def s_Raise(self, s, st):
        name = "Exception"
        if s.exc is not None:
            e = s.exc
            if isinstance(e, ast.Call):
                e = e.func
            name = ast.unparse(e).split(".")[-1]
        return [(st, RAISE, name)]

    def s_With(self, s, st):
        t = ast.unparse(s.items[0].context_expr)
        if "catch_warnings" in t:
            return self.exec_block(s.body, st)
        v0 = None
        if len(s.items) == 1 and "rasterio_open" in t:
            v0 = self.eval(s.items[0].context_expr, st)
        if isinstance(v0, tuple) and v0 and isinstance(v0[0], str) and v0[0] in ("rasterwriter", "rasterfile"):
            if s.items[0].optional_vars is not None:
                self.assign_target(s.items[0].optional_vars, v0, st, s)
            return self.exec_block(s.body, st)
        if hasattr(self, "glue") and self.glue():
            # orchestration code: the context manager is an opaque object (its construction is an event of the trace), bound to
            # the `as` name; __enter__/__exit__ are not modelled
            for it in s.items:
                v = self.eval(it.context_expr, st)
                if it.optional_vars is not None:
                    self.assign_target(it.optional_vars, v, st, s)
            return self.exec_block(s.body, st)
        raise Unsupported("with %s (line %d)" % (t, s.lineno))

    def s_Try(self, s, st):
        if s.finalbody or s.orelse:
            raise Unsupported("try/finally/else (line %d)" % s.lineno)
        out = []
        for (s2, oc, pl) in self.exec_block(s.body, st):
            if oc != RAISE:
                out.append((s2, oc, pl))
                continue
            handled = False
            for h in s.handlers:
                names = []
                if h.type is None:
                    names = None
                elif isinstance(h.type, ast.Tuple):
                    names = [ast.unparse(x).split(".")[-1] for x in h.type.elts]
                else:
                    names = [ast.unparse(h.type).split(".")[-1]]
                if names is None or pl in names or "Exception" in names:
                    if h.name:
                        s2.vars[h.name] = SObj("exc:" + str(pl))
                    out += self.exec_block(h.body, s2)
                    handled = True
                    break
            if not handled:
                out.append((s2, oc, pl))
        return out

    # ------------------------------------------------------------ loops
    def loop_ordinal(self, node):
        return self.loop_ordinals[id(node)]

    def number_loops(self, fnode):
        k = 0
        for n in ast.walk(fnode):
            pass
        order = []

        def visit(n):
            for ch in ast.iter_child_nodes(n):
                if isinstance(ch, (ast.For, ast.While)):
                    order.append(ch)
                visit(ch)
        visit(fnode)
        order.sort(key=lambda n: (n.lineno, n.col_offset))
        for i, n in enumerate(order):
            self.loop_ordinals[id(n)] = i + 1

    def s_For(self, s, st):
        if s.orelse:
            raise Unsupported("for/else (line %d)" % s.lineno)
        k = self.loop_ordinals.get(id(s), 0)
        it = self.eval(s.iter, st)
        if isinstance(it, tuple) and it and it[0] == "range":
            start, stop, step = it[1], it[2], it[3]
            parallel = it[4]
        else:
            items = it.items if isinstance(it, SList) else it
            if isinstance(items, dict):
                items = list(items.keys())
            if isinstance(items, (list, tuple)):
                return self.unroll_items(s, items, st)
            raise Unsupported("for over %r (line %d)" % (type(it), s.lineno))
        invs = self.c.invariants.get(k) if self.c is not None else None
        if not isinstance(step, int) or step == 0:
            raise Unsupported("symbolic range step (line %d)" % s.lineno)
        conc = isinstance(start, int) and isinstance(stop, int)
        if (invs is None) and conc and len(range(start, stop, step)) <= self.opt("max_unroll", 64):
            return self.unroll_items(s, list(range(start, stop, step)), st)
        if self.c is not None and self.c.unroll.get(k):
            if not conc:
                raise Unsupported("unroll(%d) needs concrete bounds (line %d)" % (k, s.lineno))
            return self.unroll_items(s, list(range(start, stop, step)), st)
        if invs is None:
            raise Unsupported("loop %d (line %d) of %s has no invariant" % (k, s.lineno, self.prefix))
        return self.invariant_loop(s, k, invs, st, start, stop, step, parallel)

    def unroll_items(self, s, items, st):
        states = [st]
        out = []
        for x in items:
            nxt = []
            for cur in states:
                self.assign_target(s.target, x, cur, s)
                for (s2, oc, pl) in self.exec_block(s.body, cur):
                    if oc in (NORMAL, CONTINUE):
                        nxt.append(s2)
                    elif oc == BREAK:
                        out.append((s2, NORMAL, None))
                    else:
                        out.append((s2, oc, pl))
            states = nxt
        return out + [(x, NORMAL, None) for x in states]

    def eval_invs(self, invs, st, tname, counter):
        """evaluate invariant clauses with the loop variable bound to `counter` (the value about to be taken)"""
        saved = st.vars.get(tname, None)
        had = tname in st.vars
        st.vars["last_" + tname] = saved if had else counter
        st.vars[tname] = counter
        try:
            return [(cl, as_bool(self.eval_spec(cl.expr, st))) for cl in invs]
        finally:
            if had:
                st.vars[tname] = saved
            else:
                del st.vars[tname]
            del st.vars["last_" + tname]

    def invariant_loop(self, s, k, invs, st, start, stop, step, parallel):
        if not isinstance(s.target, ast.Name):
            raise Unsupported("loop target (line %d)" % s.lineno)
        tname = s.target.id
        # 1. invariant holds on entry
        for cl, g in self.eval_invs(invs, st, tname, start):
            self.emit(st, "inv-entry", "loop%d" % k, g, s, "entry: " + cl.text())
        # 2. havoc what the body may assign
        names, stores, calls = assigned_names(s.body)
        names.discard(tname)
        pre_target = st.vars.get(tname)
        hv = st.fork()
        symmark = len(SYMLOG)
        for nm in sorted(names):
            if nm in hv.vars:
                hv.vars[nm] = self.havoc_value(nm, hv.vars[nm], hv)
        cells = set()
        c = fresh_int("it_" + tname)
        zs = lambda v: z3.IntVal(v) if isinstance(v, int) else v
        pats = store_patterns(s.body)
        called_with = self.arrays_passed_to_assigning_calls(calls, hv)
        for nm in sorted(stores):
            v = hv.vars.get(nm)
            if isinstance(v, SArr):
                cells.add(v.cell)
                before = hv.heap[v.cell]
                havoc_cell(hv, v, nm)
                aliased = any(o != nm and isinstance(hv.vars.get(o), SArr) and hv.vars[o].cell == v.cell for o in stores)
                if nm not in called_with and not aliased:
                    self.frame_inference(hv, st, v, before, pats.get(nm), set(names) | set(stores), tname, c, start, step)
            elif isinstance(v, tuple):
                for x in v:
                    if isinstance(x, SArr):
                        havoc_cell(hv, x, nm)
            else:
                self.havoc_reachable_arrays(hv, v, nm, store_keys(s.body).get(nm))
        self.havoc_for_calls(calls, hv)
        if step > 0:
            hv.assume(zs(c) >= zs(start))
            if step != 1:
                hv.assume((c - start) % step == 0)
        else:
            hv.assume(zs(c) <= zs(start))
            if step != -1:
                hv.assume((start - c) % (-step) == 0)
        for cl, g in self.eval_invs(invs, hv, tname, c):
            hv.assume(g)
        out = []
        # 3. body preserves the invariant
        body = hv.fork()
        body.assume(zs(c) < zs(stop) if step > 0 else zs(c) > zs(stop))
        body.vars[tname] = c
        racelog = None
        if parallel and self.numba and self.opt("race", True):
            racelog = []
            body.log = racelog
        elif st.log is not None:
            body.log = st.log
        symmark_body = len(SYMLOG)
        if self.feasible(body):
            for (s2, oc, pl) in self.exec_block(s.body, body):
                if oc in (NORMAL, CONTINUE):
                    s2.log = None
                    for cl, g in self.eval_invs(invs, s2, tname, c + step):
                        self.emit(s2, "inv-keep", "loop%d" % k, g, s, "preserved: " + cl.text())
                        if self.opt("chain_invariants", False):
                            # A and B is shown as A, then A -> B: later clauses may use the earlier ones at the new state
                            s2.assume(g)
                elif oc == BREAK:
                    s2.log = st.log
                    out.append((s2, NORMAL, None))
                else:
                    s2.log = st.log
                    out.append((s2, oc, pl))
        if racelog is not None:
            self.race_obligations(s, k, racelog, c, hv, SYMLOG[symmark_body:], zs(start), zs(stop), step, names, tname)
        if st.log is not None and st.log is not racelog:
            # accesses made inside this loop also belong to the enclosing iteration (an enclosing prange loop must see them)
            inner = racelog if racelog is not None else getattr(body, "log", None)
            if inner:
                st.log.extend(inner)
        # 4. normal exit
        ex = hv
        ex.log = st.log
        if step > 0:
            ex.assume(zs(c) >= zs(stop))
            if step == 1:
                ex.assume(c == z3.If(zs(stop) > zs(start), zs(stop), zs(start)))
            else:
                ex.assume(zs(c) - step < z3.If(zs(stop) > zs(start), zs(stop), zs(start) + step))
            ran = zs(stop) > zs(start)
        else:
            ex.assume(zs(c) <= zs(stop))
            if step == -1:
                ex.assume(c == z3.If(zs(stop) < zs(start), zs(stop), zs(start)))
            else:
                ex.assume(zs(c) - step > z3.If(zs(stop) < zs(start), zs(stop), zs(start) + step))
            ran = zs(stop) < zs(start)
        if pre_target is not None and is_int(pre_target):
            ex.vars[tname] = z3.If(ran, c - step, zs(to_int(pre_target)))
        else:
            ex.vars[tname] = c - step
            # (if the loop did not run the name is unbound in python; any later use is preceded by an assignment in
            #  the supported code, otherwise the value c - step is meaningless but harmless for obligations that
            #  do not mention it)
        if self.feasible(ex):
            out.append((ex, NORMAL, None))
        afters = getattr(self.c, "afters", {}).get(k) if self.c is not None else None
        if afters:
            out = self.cut_after_loop(s, k, afters, st, out, names, stores, calls, tname, pats)
        return out

    def cut_after_loop(self, s, k, afters, st, outs, names, stores, calls, tname, pats):
        """loop summary: prove the after-clauses on every exit path, continue from ONE state that knows only them"""
        rest = []
        for (s2, oc, pl) in outs:
            if oc != NORMAL:
                rest.append((s2, oc, pl))
                continue
            for cl in afters:
                self.emit(s2, "after", "loop%d" % k, as_bool(self.eval_spec(cl.expr, s2)), s, "loop exit: " + cl.text())
        m = st.fork()
        for nm in sorted(set(names) | {tname}):
            if nm in m.vars:
                m.vars[nm] = self.havoc_value(nm, m.vars[nm], m)
            elif nm == tname:
                m.vars[nm] = fresh_int(nm)
        called_with = self.arrays_passed_to_assigning_calls(calls, m)
        for nm in sorted(stores):
            v = m.vars.get(nm)
            if isinstance(v, SArr):
                before = m.heap[v.cell]
                havoc_cell(m, v, nm)
                if nm not in called_with:
                    self.frame_inference(m, st, v, before, pats.get(nm), set(names) | set(stores) | {tname}, "\0none", fresh_int("unused"), 0, 1)
            else:
                self.havoc_reachable_arrays(m, v, nm, store_keys(s.body).get(nm))
        self.havoc_for_calls(calls, m)
        for cl in afters:
            m.assume(as_bool(self.eval_spec(cl.expr, m)))
        return rest + [(m, NORMAL, None)]

    def arrays_passed_to_assigning_calls(self, calls, st):
        out = set()
        for cnode in calls:
            tgt = self.static_callee(cnode, st)
            cc = self.db.callee_contract(tgt) if tgt else None
            if cc is not None and cc.assigns:
                for pname in cc.assigns:
                    if pname in cc.params:
                        i = cc.params.index(pname)
                        if i < len(cnode.args) and isinstance(cnode.args[i], ast.Name):
                            out.add(cnode.args[i].id)
        return out

    def frame_inference(self, hv, pre, arr, before, pats, assigned, tname, c, start, step):
        """cells the loop body cannot write keep their value (derived syntactically from the store patterns):
        an axis whose index is a loop-invariant expression -> other positions on that axis are preserved;
        an axis whose index is this loop's variable -> positions not yet reached are preserved."""
        if not pats or arr.fixed:
            return
        nd = len(arr.shape)
        if any(len(p) != nd for p in pats):
            return
        conds = []
        q = [z3.Int("f%d!" % k) for k in range(nd)]
        for k in range(nd):
            texts = set(ast.unparse(p[k]) for p in pats)
            if len(texts) != 1:
                continue
            e = pats[0][k]
            used = set(n.id for n in ast.walk(e) if isinstance(n, ast.Name))
            if isinstance(e, ast.Name) and e.id == tname:
                if self.proved_quick(pre, (z3.IntVal(start) if isinstance(start, int) else start) >= 0) or (isinstance(start, int) and start >= 0):
                    conds.append(q[k] >= c if step > 0 else z3.And(q[k] <= c, c >= 0))
                continue
            if used & (set(assigned) | {tname}):
                continue
            try:
                val = to_int(self.eval_spec(e, pre))
            except Unsupported:
                continue
            n_k = arr.shape[k]
            valz = z3.IntVal(val) if isinstance(val, int) else val
            nk = z3.IntVal(n_k) if isinstance(n_k, int) else n_k
            norm = z3.If(valz < 0, valz + nk, valz)
            conds.append(q[k] != norm)
        if not conds:
            return
        cond = z3.Or(*conds)
        after = hv.heap[arr.cell]
        if arr.dt == "f":
            hv.assume(z3.ForAll(q, z3.Implies(cond, sel(after[0], q) == sel(before[0], q)),
                                patterns=[sel(after[0], q)]))
            hv.assume(z3.ForAll(q, z3.Implies(cond, sel(after[1], q) == sel(before[1], q)),
                                patterns=[sel(after[1], q)]))
        else:
            hv.assume(z3.ForAll(q, z3.Implies(cond, sel(after, q) == sel(before, q)),
                                patterns=[sel(after, q)]))

    def havoc_for_calls(self, calls, st):
        """cells that callee contracts declare as assigned are havocked too"""
        for cnode in calls:
            tgt = self.static_callee(cnode, st)
            if tgt is None:
                continue
            cc = self.db.callee_contract(tgt)
            if cc is None or not cc.assigns:
                continue
            for pname in cc.assigns:
                if pname in cc.params:
                    i = cc.params.index(pname)
                    if i < len(cnode.args) and isinstance(cnode.args[i], ast.Name):
                        v = st.vars.get(cnode.args[i].id)
                        if isinstance(v, SArr):
                            havoc_cell(st, v, v.name or "hv")

    def static_callee(self, cnode, st):
        try:
            f = self.eval_spec(cnode.func, st)
        except Unsupported:
            return None
        return f.target if isinstance(f, SFunc) else None

    def s_While(self, s, st):
        k = self.loop_ordinals.get(id(s), 0)
        invs = self.c.invariants.get(k) if self.c is not None else None
        if invs is None:
            raise Unsupported("while loop %d (line %d) has no invariant" % (k, s.lineno))
        for cl in invs:
            self.emit(st, "inv-entry", "loop%d" % k, as_bool(self.eval_spec(cl.expr, st)), s, "entry: " + cl.text())
        names, stores, calls = assigned_names(s.body)
        hv = st.fork()
        for nm in sorted(names):
            if nm in hv.vars:
                hv.vars[nm] = self.havoc_value(nm, hv.vars[nm], hv)
        for nm in sorted(stores):
            v = hv.vars.get(nm)
            if isinstance(v, SArr):
                havoc_cell(hv, v, nm)
            else:
                self.havoc_reachable_arrays(hv, v, nm, store_keys(s.body).get(nm))
        self.havoc_for_calls(calls, hv)
        for cl in invs:
            hv.assume(as_bool(self.eval_spec(cl.expr, hv)))
        out = []
        body = hv.fork()
        g = as_bool(self.eval(s.test, body))
        body.assume(g)
        if self.feasible(body):
            for (s2, oc, pl) in self.exec_block(s.body, body):
                if oc in (NORMAL, CONTINUE):
                    for cl in invs:
                        self.emit(s2, "inv-keep", "loop%d" % k, as_bool(self.eval_spec(cl.expr, s2)), s,
                                  "preserved: " + cl.text())
                elif oc == BREAK:
                    out.append((s2, NORMAL, None))
                else:
                    out.append((s2, oc, pl))
        g2 = as_bool(self.eval(s.test, hv))
        hv.assume(bnot(g2))
        if self.feasible(hv):
            out.append((hv, NORMAL, None))
        return out

    # ------------------------------------------------------------ prange race-freedom
    def race_obligations(self, s, k, log, c, hv, syms, start, stop, step, names, tname):
        """two distinct iterations c != c2 of a parallel loop: writes disjoint, no read of the other's writes,
        no scalar defined outside the loop assigned inside"""
        carried = [n for n in names if n in hv.vars and not isinstance(hv.vars[n], SArr)]
        # scalars assigned in the body that existed before the loop would be loop-carried (hidden reduction) unless
        # they are (re)assigned before use in every iteration; numba privatises those.  We flag only names read
        # before written syntactically.
        rb = self.read_before_write(s.body, set(carried))
        for nm in sorted(rb):
            self.emit(hv, "race", "loop%d.carried.%s" % (k, nm), False, s,
                      "scalar %s is carried across iterations of a prange loop" % nm)
        c2 = fresh_int("it2_" + tname)
        sub = [(c, c2)]
        for sym in syms:
            if z3.is_const(sym) and sym.decl().kind() == z3.Z3_OP_UNINTERPRETED:
                sub.append((sym, z3.Const(sym.decl().name() + "'", sym.sort())))
        writes = [e for e in log if e[0] == "W" and e[1] not in self.iter_local_cells(log)]
        reads = [e for e in log if e[0] == "R"]
        base = list(self.axioms) + list(hv.pc) + [c != c2, c >= start, c2 >= start,
                                                   (c < stop) if step > 0 else (c > stop),
                                                   (c2 < stop) if step > 0 else (c2 > stop)]
        n = 0
        for w in writes:
            for other in writes + reads:
                if other[1] != w[1]:
                    continue
                idx2 = [z3.substitute(z3.IntVal(i) if isinstance(i, int) else i, *sub) for i in other[2]]
                pc2 = [z3.substitute(p, *sub) for p in other[3] if not isinstance(p, bool)]
                pc1 = [p for p in w[3] if not isinstance(p, bool)]
                same = z3.And(*[(z3.IntVal(a) if isinstance(a, int) else a) == b for a, b in zip(w[2], idx2)])
                from .state import Obligation
                n += 1
                ob = Obligation(self.oid("race", "loop%d.%s%s" % (k, w[0], other[0])), "race", base + pc1 + pc2,
                                z3.Not(same), self.f.qual, s.lineno,
                                "iterations %s != %s of prange loop %d never touch the same cell (%s/%s)" % (
                                    tname, tname + "'", k, "write", "write" if other[0] == "W" else "read"), self.inputs)
                self.obligations.append(ob)
        if n == 0:
            self.emit(hv, "race", "loop%d.nowrites" % k, True, s)

    def iter_local_cells(self, log):
        return self.local_iter_cells

    def read_before_write(self, body, names):
        """names read before being written on some syntactic path through `body` (conservative, straight-line scan)"""
        out = set()
        written = set()

        def scan_expr(e):
            for n in ast.walk(e):
                if isinstance(n, ast.Name) and isinstance(n.ctx, ast.Load) and n.id in names and n.id not in written:
                    out.add(n.id)

        def scan(stmts, written):
            for st_ in stmts:
                if isinstance(st_, ast.Assign):
                    scan_expr(st_.value)
                    for t in st_.targets:
                        for n in ast.walk(t):
                            if isinstance(n, ast.Name) and isinstance(n.ctx, ast.Store):
                                written.add(n.id)
                            elif isinstance(n, ast.Name):
                                scan_expr(n)
                elif isinstance(st_, ast.AugAssign):
                    scan_expr(st_.value)
                    if isinstance(st_.target, ast.Name):
                        if st_.target.id in names and st_.target.id not in written:
                            out.add(st_.target.id)
                    else:
                        scan_expr(st_.target)
                elif isinstance(st_, ast.If):
                    scan_expr(st_.test)
                    w1, w2 = set(written), set(written)
                    scan(st_.body, w1)
                    scan(st_.orelse, w2)
                    written |= (w1 & w2)
                elif isinstance(st_, (ast.For, ast.While)):
                    if isinstance(st_, ast.For):
                        scan_expr(st_.iter)
                        for n in ast.walk(st_.target):
                            if isinstance(n, ast.Name):
                                written.add(n.id)
                    else:
                        scan_expr(st_.test)
                    scan(st_.body, set(written))
                else:
                    for n in ast.walk(st_):
                        if isinstance(n, ast.expr):
                            scan_expr(n)
                            break
        scan(body, written)
        return out
