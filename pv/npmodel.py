"""numpy calls used inside the numba kernels and the scalar helpers."""
import ast
import z3
from . import fl
from .fl import SFloat
from .vals import (SArr, SList, SObj, SFunc, SStr, Unsupported, fresh_int, fresh_float, fresh_name, I)
from .state import (alloc_array, array_read, array_write, havoc_cell, coerce_scalar, new_cell)
from .expr import (is_int, is_boolv, is_bv, is_float, as_bool, zb, to_int, simp_bool, band, bor, bnot, merge)


def zi(v):
    return z3.IntVal(v) if isinstance(v, int) else v


def dtype_code(v):
    """numpy dtype argument -> dtype code"""
    if v is None:
        return "f"
    if isinstance(v, SFunc):
        nm = v.name.split(".")[-1]
    elif isinstance(v, str):
        nm = v
    else:
        raise Unsupported("dtype %r" % (v,))
    if nm.startswith("float") or nm in ("f4", "f8"):
        return "f"
    if nm in ("uint16",):
        return "u16"
    if nm in ("uint32",):
        return "u32"
    if nm.startswith("int") or nm.startswith("uint") or nm in ("i2", "i8"):
        return "i"
    if nm.startswith("bool"):
        return "b"
    raise Unsupported("dtype " + nm)


class NpMixin:
    def b_numpy_zeros(self, args, kw, st, n, fill=0):
        shape = args[0]
        if isinstance(shape, SList):
            shape = tuple(shape.items)
        if not isinstance(shape, tuple):
            shape = (shape,)
        shape = tuple(to_int(s) for s in shape)
        dt = dtype_code(kw.get("dtype", args[1] if len(args) > 1 else None))
        if not self.spec:
            for s in shape:
                g = simp_bool(zi(s) >= 0)
                if g is not True:
                    self.emit(st, "alloc", "L%d" % n.lineno, g, n, "non-negative dimension")
                    st.assume(g)
        init = fill
        if dt == "b":
            init = bool(fill)
        arr = alloc_array(st, "a%d" % n.lineno, dt, shape, init)
        self.local_cells.add(arr.cell)
        if st.log is not None:
            self.local_iter_cells.add(arr.cell)
        return arr

    def b_numpy_ones(self, args, kw, st, n):
        return self.b_numpy_zeros(args, kw, st, n, fill=1)

    def b_numpy_full(self, args, kw, st, n):
        return self.b_numpy_zeros([args[0]] + list(args[2:]), kw, st, n, fill=args[1])

    def b_numpy_copy(self, args, kw, st, n):
        a = args[0]
        if not isinstance(a, SArr) or a.fixed:
            raise Unsupported("np.copy of %r" % type(a))
        cid = new_cell()
        st.heap[cid] = st.heap[a.cell]
        self.local_cells.add(cid)
        if st.log is not None:
            self.local_iter_cells.add(cid)
        return SArr(cid, a.dt, a.shape, name="copy_" + (a.name or "a"))

    def b_numpy_array(self, args, kw, st, n):
        v = args[0]
        if isinstance(v, SList):
            return v  # small literal array: kept as a python nested list (concrete shape)
        if isinstance(v, SArr):
            return self.b_numpy_copy([v], kw, st, n)
        raise Unsupported("np.array of %r" % type(v))

    def _slice_bounds(self, sl, dim, st, n):
        """python slice semantics with clamping, for step 1 slices: -> (lo, hi) with 0 <= lo <= hi' and hi <= dim"""
        _, lo, hi, step = sl
        if step not in (None, 1):
            raise Unsupported("slice step (line %d)" % n.lineno)
        d = zi(dim)

        def norm(v, default):
            if v is None:
                return default
            v = zi(to_int(v))
            v = z3.If(v < 0, v + d, v)
            return z3.If(v < 0, z3.IntVal(0), z3.If(v > d, d, v))
        lo2 = norm(lo, z3.IntVal(0))
        hi2 = norm(hi, d)
        return z3.simplify(lo2), z3.simplify(hi2)

    def slice_view(self, arr, idx, st, n):
        """basic slicing -> ('sview', arr, [per-axis ('i', index) | ('s', lo, hi)])"""
        shape = arr.view_shape()
        idx = list(idx) + [("slice", None, None, None)] * (len(shape) - len(idx))
        axes = []
        for i, s in zip(idx, shape):
            if isinstance(i, tuple):
                lo, hi = self._slice_bounds(i, s, st, n)
                axes.append(("s", lo, hi))
            else:
                axes.append(("i", self.norm_index(arr.name, i, s, st, n)))
        return ("sview", arr, axes)

    def sview_and(self, v, const):
        return ("smap", v, ("&", const))

    def array_binop(self, op, a, b, st, n):
        # only the forms used inside kernels: (slice view of a mask) & CONST ; (...) == 0
        if isinstance(a, tuple) and a and a[0] in ("sview", "smap"):
            return ("smap", a, (op, b))
        raise Unsupported("array arithmetic (line %d)" % n.lineno)

    def e_BinOp(self, n, st):
        a = self.eval(n.left, st)
        if isinstance(a, tuple) and a and a[0] in ("sview", "smap"):
            from .expr import BINOPS
            b = self.eval(n.right, st)
            return ("smap", a, (BINOPS[type(n.op)], b))
        return super().e_BinOp(n, st)

    def e_Compare(self, n, st):
        if len(n.ops) == 1:
            a = self.eval(n.left, st)
            if isinstance(a, tuple) and a and a[0] in ("sview", "smap"):
                from .expr import CMPOPS
                b = self.eval(n.comparators[0], st)
                return ("smap", a, (CMPOPS[type(n.ops[0])], b))
        return super().e_Compare(n, st)

    def sview_elem(self, v, pos, st):
        """element of a (mapped) 1-D/2-D slice view at relative position(s) pos"""
        if v[0] == "smap":
            x = self.sview_elem(v[1], pos, st)
            op, c = v[2]
            from .expr import arith, compare
            if op in ("==", "!=", "<", "<=", ">", ">="):
                return compare(op, x, c, self.spec)
            return arith(op, x, c, None, None)
        _, arr, axes = v
        full = []
        pi = 0
        for ax in axes:
            if ax[0] == "i":
                full.append(ax[1])
            else:
                full.append(ax[1] + zi(pos[pi]))
                pi += 1
        return array_read(st, arr, full)

    def sview_dims(self, v):
        while v[0] == "smap":
            v = v[1]
        return [(ax[1], ax[2]) for ax in v[2] if ax[0] == "s"]

    def b_numpy_sum(self, args, kw, st, n):
        v = args[0]
        if isinstance(v, tuple) and v and v[0] in ("sview", "smap"):
            dims = self.sview_dims(v)
            key = ("npsum", self.sview_key(v, st))
            # assumed contract of np.sum over a slice: uninterpreted sum function S(lo, hi) per (array, fixed indices, map)
            # with S(lo,hi) = 0 if hi <= lo else S(lo, hi-1) + elem(hi-1)   [1-D]; 2-D: sum over rows of row sums
            if len(dims) == 1:
                S = self.sum_uf(v, st)
                lo, hi = dims[0]
                return self.sum_result(S, v, lo, hi, st)
            raise Unsupported("np.sum over %d-D slice: use the contract-level handler" % len(dims))
        raise Unsupported("np.sum of %r (line %d)" % (type(v), n.lineno))

    def sview_key(self, v, st):
        if v[0] == "smap":
            return ("m", self.sview_key(v[1], st), v[2][0], str(v[2][1]))
        _, arr, axes = v
        h = st.heap[arr.cell]
        hid = tuple(x.get_id() for x in (h if isinstance(h, tuple) else (h,)))
        return ("v", hid, tuple(("i", str(ax[1])) if ax[0] == "i" else ("s",) for ax in axes))

    def elem_is_float(self, v):
        while v[0] == "smap":
            if v[2][0] in ("==", "!=", "<", "<=", ">", ">="):
                return False
            v = v[1]
        return v[1].dt == "f"

    def sum_uf(self, v, st):
        """S(lo, hi): sum of elements at absolute positions lo..hi-1 along the single sliced axis"""
        key = ("sum", self.sview_key(v, st))
        if key in self._uf_cache:
            return self._uf_cache[key]
        isf = self.elem_is_float(v)
        nm = fresh_name("npsum")
        lo, hi = z3.Ints(fresh_name("lo") + " " + fresh_name("hi"))
        # element at absolute position p: rebuild the view with lo = 0
        v0 = self._rebase(v)
        if isf:
            Sk = z3.Function(nm + ".k", I, I, fl.FK)
            Sv = z3.Function(nm + ".v", I, I, z3.RealSort())
            e = fl.F(self.sview_elem(v0, [hi - 1], st))
            prev = SFloat(Sk(lo, hi - 1), Sv(lo, hi - 1))
            tot = fl.add(prev, e)
            self.axioms.append(z3.ForAll([lo, hi], z3.And(
                z3.Implies(hi <= lo, z3.And(Sk(lo, hi) == fl.FIN, Sv(lo, hi) == 0)),
                z3.Implies(hi > lo, z3.And(Sk(lo, hi) == tot.k, Sv(lo, hi) == tot.v))), patterns=[Sk(lo, hi), Sv(lo, hi)]))
            S = (Sk, Sv)
        else:
            Si = z3.Function(nm, I, I, I)
            e = self.sview_elem(v0, [hi - 1], st)
            e = zi(to_int(e))
            self.axioms.append(z3.ForAll([lo, hi], z3.And(
                z3.Implies(hi <= lo, Si(lo, hi) == 0),
                z3.Implies(hi > lo, Si(lo, hi) == Si(lo, hi - 1) + e)), patterns=[Si(lo, hi)]))
            S = Si
        self._uf_cache[key] = S
        return S

    def _rebase(self, v):
        if v[0] == "smap":
            return ("smap", self._rebase(v[1]), v[2])
        _, arr, axes = v
        return ("sview", arr, [ax if ax[0] == "i" else ("s", z3.IntVal(0), ax[2]) for ax in axes])

    def sum_result(self, S, v, lo, hi, st):
        hi2 = z3.If(hi < lo, lo, hi)
        if isinstance(S, tuple):
            return SFloat(S[0](lo, hi2), S[1](lo, hi2))
        return S(lo, hi2)
