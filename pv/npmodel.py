"""numpy calls used inside the numba kernels and the scalar helpers."""
import ast
import z3
from . import fl
from .fl import SFloat
from .vals import (SArr, SList, SObj, SFunc, SStr, Unsupported, fresh_int, fresh_float, fresh_name, I, sel)
from .state import (alloc_array, array_read, array_write, havoc_cell, coerce_scalar, new_cell)
from .expr import (is_int, is_boolv, is_bv, is_float, as_bool, zb, to_int, simp_bool, band, bor, bnot, merge)


def zi(v):
    return z3.IntVal(v) if isinstance(v, int) else v


def dtype_code(v):
    """numpy dtype argument -> dtype code"""
    if v is None:
        return "f"
    if isinstance(v, SFunc):
        nm = v.name.split(".")[-1]
    elif isinstance(v, str):
        nm = v
    else:
        raise Unsupported("dtype %r" % (v,))
    if nm.startswith("float") or nm in ("f4", "f8"):
        return "f"
    if nm in ("uint16",):
        return "u16"
    if nm in ("uint32",):
        return "u32"
    if nm.startswith("int") or nm.startswith("uint") or nm in ("i2", "i8"):
        return "i"
    if nm.startswith("bool"):
        return "b"
    raise Unsupported("dtype " + nm)


class NpMixin:
    def b_numpy_zeros(self, args, kw, st, n, fill=0):
        shape = args[0]
        if isinstance(shape, SList):
            shape = tuple(shape.items)
        if not isinstance(shape, tuple):
            shape = (shape,)
        shape = tuple(to_int(s) for s in shape)
        dt = dtype_code(kw.get("dtype", args[1] if len(args) > 1 else None))
        if dt == "f" and self.opt("finite_locals", False):
            dt = "r"
        if not self.spec:
            for s in shape:
                g = simp_bool(zi(s) >= 0)
                if g is not True:
                    self.emit(st, "alloc", "L%d" % n.lineno, g, n, "non-negative dimension")
                    st.assume(g)
        init = fill
        if dt == "b":
            init = bool(fill)
        arr = alloc_array(st, "a%d" % n.lineno, dt, shape, init)
        self.local_cells.add(arr.cell)
        if st.log is not None:
            self.local_iter_cells.add(arr.cell)
        return arr

    def b_numpy_ones(self, args, kw, st, n):
        return self.b_numpy_zeros(args, kw, st, n, fill=1)

    def b_numpy_full(self, args, kw, st, n):
        return self.b_numpy_zeros([args[0]] + list(args[2:]), kw, st, n, fill=args[1])

    def b_numpy_copy(self, args, kw, st, n):
        a = args[0]
        if type(a).__name__ == "SData":   # np.copy(DataArray) -> a plain array holding its values
            a = a.arr
        if not isinstance(a, SArr) or a.fixed:
            raise Unsupported("np.copy of %r" % type(a))
        cid = new_cell()
        st.heap[cid] = st.heap[a.cell]
        self.local_cells.add(cid)
        if st.log is not None:
            self.local_iter_cells.add(cid)
        return SArr(cid, a.dt, a.shape, name="copy_" + (a.name or "a"))

    def b_numpy_array(self, args, kw, st, n):
        v = args[0]
        if isinstance(v, SList):
            return v  # small literal array: kept as a python nested list (concrete shape)
        if isinstance(v, SArr):
            return self.b_numpy_copy([v], kw, st, n)
        raise Unsupported("np.array of %r" % type(v))

    def _slice_bounds(self, sl, dim, st, n):
        """step-1 slice -> (lo, hi) absolute positions.  Code mode: symbolic bounds get an in-range obligation
        (0 <= bound <= dim) and are then used as they are; with option(clamp_slices=True) python's clamping/wrapping
        is modelled instead.  Spec mode: bounds are mathematical (no wrap, no clamp)."""
        _, lo, hi, step = sl
        if step not in (None, 1):
            raise Unsupported("slice step (line %d)" % n.lineno)
        d = zi(dim)

        def norm(v, default):
            if v is None:
                return default
            v = to_int(v)
            if isinstance(v, int):
                if v < 0:
                    return z3.simplify(z3.If(d + v < 0, z3.IntVal(0), d + v))
                return z3.IntVal(v) if isinstance(dim, int) and v <= dim else z3.simplify(z3.If(d < v, d, z3.IntVal(v)))
            if self.spec:
                return v
            if self.proved_quick(st, v < 0):
                w = d + v  # python: a negative bound counts from the end
                g = simp_bool(w >= 0)
                if g is not True:
                    self.emit(st, "bounds", "L%d" % n.lineno, g, n, "slice bound %s (from the end) within [0,%s]" % (v, dim))
                    st.assume(g)
                return w
            if self.opt("clamp_slices", False):
                w = z3.If(v < 0, v + d, v)
                return z3.simplify(z3.If(w < 0, z3.IntVal(0), z3.If(w > d, d, w)))
            g = simp_bool(z3.And(v >= 0, v <= d))
            if g is not True:
                self.emit(st, "bounds", "L%d" % n.lineno, g, n, "slice bound %s within [0,%s]" % (v, dim))
                st.assume(g)
            return v
        return norm(lo, z3.IntVal(0)), norm(hi, d)

    def slice_view(self, arr, idx, st, n):
        """basic slicing -> ('sview', arr, [per-axis ('i', index) | ('s', lo, hi)])"""
        shape = arr.view_shape()
        idx = list(idx) + [("slice", None, None, None)] * (len(shape) - len(idx))
        axes = []
        for i, s in zip(idx, shape):
            if isinstance(i, tuple):
                lo, hi = self._slice_bounds(i, s, st, n)
                axes.append(("s", lo, hi))
            else:
                axes.append(("i", self.norm_index(arr.name, i, s, st, n)))
        return ("sview", arr, axes)

    def sview_and(self, v, const):
        return ("smap", v, ("&", const))

    def array_binop(self, op, a, b, st, n):
        # only the forms used inside kernels: (slice view of a mask) & CONST ; (...) == 0
        if isinstance(a, tuple) and a and isinstance(a[0], str) and a[0] in ("sview", "smap"):
            return ("smap", a, (op, b))
        raise Unsupported("array arithmetic (line %d)" % n.lineno)

    def e_BinOp(self, n, st):
        a = self.eval(n.left, st)
        if isinstance(a, tuple) and a and isinstance(a[0], str) and a[0] in ("sview", "smap"):
            from .expr import BINOPS
            b = self.eval(n.right, st)
            return ("smap", a, (BINOPS[type(n.op)], b))
        return super().e_BinOp(n, st)

    def e_Compare(self, n, st):
        if len(n.ops) == 1:
            a = self.eval(n.left, st)
            if isinstance(a, tuple) and a and isinstance(a[0], str) and a[0] in ("sview", "smap"):
                from .expr import CMPOPS
                b = self.eval(n.comparators[0], st)
                return ("smap", a, (CMPOPS[type(n.ops[0])], b))
        return super().e_Compare(n, st)

    def sview_elem(self, v, pos, st):
        """element of a (mapped) 1-D/2-D slice view at relative position(s) pos"""
        if v[0] == "smap":
            x = self.sview_elem(v[1], pos, st)
            op, c = v[2]
            from .expr import arith, compare
            if op in ("==", "!=", "<", "<=", ">", ">="):
                return compare(op, x, c, self.spec)
            return arith(op, x, c, None, None)
        _, arr, axes = v
        full = []
        pi = 0
        for ax in axes:
            if ax[0] == "i":
                full.append(ax[1])
            else:
                full.append(ax[1] + zi(pos[pi]))
                pi += 1
        return array_read(st, arr, full)

    def sview_dims(self, v):
        while v[0] == "smap":
            v = v[1]
        return [(ax[1], ax[2]) for ax in v[2] if ax[0] == "s"]

    def b_numpy_sum(self, args, kw, st, n):
        v = args[0]
        if isinstance(v, tuple) and v and isinstance(v[0], str) and v[0] in ("sview", "smap"):
            dims = self.sview_dims(v)
            # assumed contract of np.sum over a 1-D slice: uninterpreted S(fixed indices..., lo, hi) per (array, sliced
            # axis, element map) with S(.., lo, hi) = 0 if hi <= lo else S(.., lo, hi-1) + elem(hi-1)
            if len(dims) == 1:
                S, fixed = self.sum_uf(v, st)
                lo, hi = dims[0]
                hi2 = z3.If(hi < lo, lo, hi)
                if isinstance(S, tuple) and S[0] == "real":
                    return SFloat(fl.FIN, S[1](*(fixed + [lo, hi2])), True)
                if isinstance(S, tuple):
                    return SFloat(S[0](*(fixed + [lo, hi2])), S[1](*(fixed + [lo, hi2])))
                return S(*(fixed + [lo, hi2]))
            if len(dims) == 2:
                return self.sum2d(v, dims, st, n)
            raise Unsupported("np.sum over %d-D slice" % len(dims))
        raise Unsupported("np.sum of %r (line %d)" % (type(v), n.lineno))

    def sum2d(self, v, dims, st, n):
        raise Unsupported("np.sum over a 2-D slice (line %d)" % n.lineno)

    def sview_base(self, v):
        while v[0] == "smap":
            v = v[1]
        return v

    def sview_key(self, v, st):
        if v[0] == "smap":
            return ("m", self.sview_key(v[1], st), v[2][0], str(v[2][1]))
        _, arr, axes = v
        h = arr.snap if arr.snap is not None else st.heap[arr.cell]
        self._keep.append(h)
        hid = tuple(x.get_id() for x in (h if isinstance(h, tuple) else (h,)))
        return ("v", hid, tuple(ax[0] for ax in axes), tuple(str(f) for f in arr.fixed))

    def elem_is_float(self, v):
        while v[0] == "smap":
            if v[2][0] in ("==", "!=", "<", "<=", ">", ">="):
                return False
            v = v[1]
        return v[1].dt in ("f", "r")

    def elem_is_real(self, v):
        return self.sview_base(v)[1].dt == "r"

    def sum_uf(self, v, st):
        """-> (S, fixed index terms).  S(fixed..., lo, hi): sum of the elements at positions lo..hi-1 of the sliced axis"""
        base = self.sview_base(v)
        fixed = [zi(to_int(ax[1])) for ax in base[2] if ax[0] == "i"]
        key = ("sum", self.sview_key(v, st))
        if key in self._uf_cache:
            return self._uf_cache[key], fixed
        isf = self.elem_is_float(v)
        nm = fresh_name("npsum")
        fb = [z3.Int(fresh_name("fx")) for _ in fixed]
        lo, hi = z3.Int(fresh_name("lo")), z3.Int(fresh_name("hi"))
        # the element at absolute position hi-1 with symbolic fixed indices
        v0 = self._rebase(v, fb)
        nf = len(fb)
        if isf and self.elem_is_real(v):
            Sr = z3.Function(nm + ".r", *([I] * (nf + 2) + [z3.RealSort()]))
            e = fl.F(self.sview_elem(v0, [hi - 1], st))
            self.axioms.append(z3.ForAll(fb + [lo, hi], z3.And(
                z3.Implies(hi <= lo, Sr(*(fb + [lo, hi])) == 0),
                z3.Implies(hi > lo, Sr(*(fb + [lo, hi])) == Sr(*(fb + [lo, hi - 1])) + e.v)), patterns=[Sr(*(fb + [lo, hi]))]))
            S = ("real", Sr)
        elif isf:
            Sk = z3.Function(nm + ".k", *([I] * (nf + 2) + [fl.FK]))
            Sv = z3.Function(nm + ".v", *([I] * (nf + 2) + [z3.RealSort()]))
            e = fl.F(self.sview_elem(v0, [hi - 1], st))
            prev = SFloat(Sk(*(fb + [lo, hi - 1])), Sv(*(fb + [lo, hi - 1])))
            tot = fl.add(prev, e)
            self.axioms.append(z3.ForAll(fb + [lo, hi], z3.And(
                z3.Implies(hi <= lo, z3.And(Sk(*(fb + [lo, hi])) == fl.FIN, Sv(*(fb + [lo, hi])) == 0)),
                z3.Implies(hi > lo, z3.And(Sk(*(fb + [lo, hi])) == tot.k, Sv(*(fb + [lo, hi])) == tot.v))),
                patterns=[Sk(*(fb + [lo, hi])), Sv(*(fb + [lo, hi]))]))
            S = (Sk, Sv)
        else:
            Si = z3.Function(nm, *([I] * (nf + 3)))
            e = zi(to_int(self.sview_elem(v0, [hi - 1], st)))
            self.axioms.append(z3.ForAll(fb + [lo, hi], z3.And(
                z3.Implies(hi <= lo, Si(*(fb + [lo, hi])) == 0),
                z3.Implies(hi > lo, Si(*(fb + [lo, hi])) == Si(*(fb + [lo, hi - 1])) + e)), patterns=[Si(*(fb + [lo, hi]))]))
            S = Si
        self._uf_cache[key] = S
        return S, fixed

    def _rebase(self, v, fb):
        """same view with slice start 0 and the fixed indices replaced by the bound variables fb"""
        if v[0] == "smap":
            return ("smap", self._rebase(v[1], fb), v[2])
        _, arr, axes = v
        it = iter(fb)
        return ("sview", arr, [("i", next(it)) if ax[0] == "i" else ("s", z3.IntVal(0), ax[2]) for ax in axes])

    # ------------------------------------------------------------ slice assignment  a[i, :] = b[j, :]
    def array_set_slice(self, arr, idx, v, st, node):
        shape = arr.view_shape()
        idx = list(idx) + [("slice", None, None, None)] * (len(shape) - len(idx))
        axes = []
        for i, s_ in zip(idx, shape):
            if isinstance(i, tuple):
                lo, hi = self._slice_bounds(i, s_, st, node)
                axes.append(("s", lo, hi))
            else:
                axes.append(("i", self.norm_index(arr.name, i, s_, st, node)))
        nd = len(arr.shape)
        q = [z3.Int("w%d!" % k) for k in range(nd)]
        inside = []
        pos = []
        for k, ax in enumerate(axes):
            qq = q[len(arr.fixed) + k]
            if ax[0] == "i":
                inside.append(qq == zi(ax[1]))
            else:
                inside += [qq >= ax[1], qq < ax[2]]
                pos.append(qq - ax[1])
        for k, f in enumerate(arr.fixed):
            inside.append(q[k] == zi(f))
        inside = z3.And(*inside)
        before = st.heap[arr.cell]
        from .state import havoc_cell
        havoc_cell(st, arr, arr.name or "sl")
        after = st.heap[arr.cell]
        # value written at a cell of the region
        if isinstance(v, tuple) and v and isinstance(v[0], str) and v[0] in ("sview", "smap"):
            if not self.spec:
                dv = self.sview_dims(v)
                dt = [(ax[1], ax[2]) for ax in axes if ax[0] == "s"]
                if len(dv) != len(dt):
                    raise Unsupported("slice assignment rank mismatch (line %d)" % node.lineno)
                for (a0, a1), (b0, b1) in zip(dv, dt):
                    self.emit(st, "shape", "L%d" % node.lineno, (a1 - a0) == (b1 - b0), node, "slice extents agree")
            val = self.sview_elem(v, pos, st_with(st, arr.cell, before))
        elif isinstance(v, tuple) and v and v[0] == "lazyval":
            lz = v[1]
            if not self.spec:
                dt_ = [(ax[1], ax[2]) for ax in axes if ax[0] == "s"]
                if len(lz.shape) != len(dt_):
                    raise Unsupported("slice assignment rank mismatch (line %d)" % node.lineno)
                for s_l, (b0, b1) in zip(lz.shape, dt_):
                    self.emit(st, "shape", "L%d" % node.lineno, zi(s_l) == (b1 - b0), node, "assigned array has the extent of the slice")
            val = lz.get(pos, st_with(st, arr.cell, before))
            if arr.dt == "i" and not self.spec and getattr(arr, "irange", None):
                pass
        elif isinstance(v, SArr):
            val = array_read(st_with(st, arr.cell, before), v, pos)
        else:
            val = v
        if arr.dt == "r" and not self.spec:
            self.real_store_check(val if isinstance(val, SFloat) else fl.F(0), st, node)
        if arr.dt == "f":
            fv = fl.F(val) if not isinstance(val, SFloat) else val
            st.assume(z3.ForAll(q, sel(after[0], q) == z3.If(inside, fv.k, sel(before[0], q)), patterns=[sel(after[0], q)]))
            st.assume(z3.ForAll(q, sel(after[1], q) == z3.If(inside, fv.v, sel(before[1], q)), patterns=[sel(after[1], q)]))
        else:
            st.assume(z3.ForAll(q, sel(after, q) == z3.If(inside, coerce_scalar(val, arr.dt), sel(before, q)), patterns=[sel(after, q)]))


class _StView:
    """read-only view of a state with one heap cell replaced (value before a slice assignment)"""
    def __init__(self, st, cell, val):
        self.heap = dict(st.heap)
        self.heap[cell] = val
        self.vars = st.vars
        self.pc = st.pc
        self.log = None


def st_with(st, cell, val):
    return _StView(st, cell, val)
