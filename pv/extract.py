"""Locate functions of the real source tree by qualified name and hand their AST to the prover.

The text that is verified is re-read from the working tree ($PANDORA_REPO, default /repo) on every
run.  What extraction drops is recorded per function (decorators, annotations, docstrings,
logging/print calls, `del`, warnings context managers) and ends up in the evidence file.
"""
import ast
import hashlib
import os

REPO = os.environ.get("PANDORA_REPO", "/repo")

_mod_cache = {}


class ExtractError(Exception):
    pass


def module_file(modname):
    p = os.path.join(REPO, *modname.split("."))
    if os.path.isfile(p + ".py"):
        return p + ".py"
    if os.path.isfile(os.path.join(p, "__init__.py")):
        return os.path.join(p, "__init__.py")
    return None


def load_module(modname):
    f = module_file(modname)
    if f is None:
        raise ExtractError("no module " + modname)
    st = os.stat(f)
    key = (f, st.st_mtime_ns, st.st_size)
    if key not in _mod_cache:
        src = open(f, encoding="utf-8").read()
        _mod_cache[key] = (ast.parse(src, filename=f), src, f)
    return _mod_cache[key]


def split_qualname(qual):
    parts = qual.split(".")
    for i in range(len(parts), 0, -1):
        mod = ".".join(parts[:i])
        if module_file(mod) is not None and i < len(parts):
            return mod, parts[i:]
    raise ExtractError("cannot resolve " + qual)


class FuncInfo:
    def __init__(self, qual, node, src, file, modname, cls):
        self.qual = qual
        self.node = node
        self.file = file
        self.modname = modname
        self.cls = cls  # enclosing ClassDef or None
        seg = ast.get_source_segment(src, node) or ""
        self.sha256 = hashlib.sha256(seg.encode()).hexdigest()
        self.lineno = node.lineno
        self.decorators = [ast.get_source_segment(src, d) for d in node.decorator_list]
        self.numba = any(("njit" in (d or "")) for d in self.decorators)
        self.parallel = any(("parallel" in (d or "")) for d in self.decorators)
        self.dropped = self._dropped(node, src)

    @staticmethod
    def _dropped(node, src):
        d = []
        for dec in node.decorator_list:
            d.append("decorator @" + (ast.get_source_segment(src, dec) or "?").split("(")[0])
        if ast.get_docstring(node):
            d.append("docstring")
        if node.returns is not None or any(a.annotation is not None for a in node.args.args):
            d.append("type annotations")
        for n in ast.walk(node):
            if isinstance(n, ast.Expr) and isinstance(n.value, ast.Call):
                t = ast.unparse(n.value.func)
                if t.startswith("logging.") or t == "print":
                    d.append("call %s (line %d)" % (t, n.lineno))
            if isinstance(n, ast.Delete):
                d.append("del (line %d)" % n.lineno)
            if isinstance(n, ast.With) and "catch_warnings" in ast.unparse(n.items[0].context_expr):
                d.append("warnings.catch_warnings context manager (body kept)")
        return sorted(set(d))

    def record(self):
        return {
            "qualname": self.qual,
            "file": os.path.relpath(self.file, REPO),
            "line": self.lineno,
            "sha256": self.sha256,
            "numba": self.numba,
            "dropped": self.dropped,
        }


def load_function(qual):
    modname, rest = split_qualname(qual)
    tree, src, f = load_module(modname)
    body = tree.body
    cls = None
    node = None
    for i, name in enumerate(rest):
        found = None
        for n in body:
            if isinstance(n, (ast.FunctionDef, ast.ClassDef)) and n.name == name:
                found = n
        if found is None:
            raise ExtractError("no %s in %s" % (name, modname))
        if isinstance(found, ast.ClassDef):
            cls = found
        body = found.body
        node = found
    if not isinstance(node, ast.FunctionDef):
        raise ExtractError(qual + " is not a function")
    return FuncInfo(qual, node, src, f, modname, cls)


def load_class(qual):
    modname, rest = split_qualname(qual)
    tree, src, f = load_module(modname)
    body = tree.body
    node = None
    for name in rest:
        found = None
        for n in body:
            if isinstance(n, ast.ClassDef) and n.name == name:
                found = n
        if found is None:
            raise ExtractError("no class %s in %s" % (name, modname))
        body = found.body
        node = found
    return node, src, f, modname


# ---------------------------------------------------------------- constants

_SAFE_BIN = {
    ast.Add: lambda a, b: a + b,
    ast.Sub: lambda a, b: a - b,
    ast.Mult: lambda a, b: a * b,
    ast.LShift: lambda a, b: a << b,
    ast.RShift: lambda a, b: a >> b,
    ast.BitOr: lambda a, b: a | b,
    ast.BitAnd: lambda a, b: a & b,
    ast.FloorDiv: lambda a, b: a // b,
    ast.Pow: lambda a, b: a**b,
}


def _const_eval(node, env):
    if isinstance(node, ast.Constant):
        return node.value
    if isinstance(node, ast.Name) and node.id in env:
        return env[node.id]
    if isinstance(node, ast.BinOp) and type(node.op) in _SAFE_BIN:
        return _SAFE_BIN[type(node.op)](_const_eval(node.left, env), _const_eval(node.right, env))
    if isinstance(node, ast.UnaryOp) and isinstance(node.op, ast.USub):
        return -_const_eval(node.operand, env)
    if isinstance(node, (ast.Tuple, ast.List)):
        v = [_const_eval(e, env) for e in node.elts]
        return tuple(v) if isinstance(node, ast.Tuple) else v
    if isinstance(node, ast.Dict):
        return {_const_eval(k, env): _const_eval(v, env) for k, v in zip(node.keys, node.values)}
    raise ValueError("not constant")


def module_constants(modname):
    """module-level names bound to literal constants (incl. simple arithmetic over earlier ones)"""
    tree, _, _ = load_module(modname)
    env = {}
    for n in tree.body:
        if isinstance(n, ast.Assign) and len(n.targets) == 1 and isinstance(n.targets[0], ast.Name):
            try:
                env[n.targets[0].id] = _const_eval(n.value, env)
            except (ValueError, KeyError, TypeError):
                pass
    return env


def module_imports(modname):
    """alias -> ('module', modname) | ('name', modname, name) for the imports of a module"""
    tree, _, _ = load_module(modname)
    out = {}
    pkg = modname.split(".")
    for n in tree.body:
        if isinstance(n, ast.Import):
            for a in n.names:
                out[a.asname or a.name.split(".")[0]] = ("module", a.name if a.asname else a.name.split(".")[0])
        elif isinstance(n, ast.ImportFrom):
            base = n.module or ""
            if n.level:
                f = module_file(modname)
                is_pkg = f.endswith("__init__.py")
                up = pkg if is_pkg else pkg[:-1]
                up = up[: len(up) - (n.level - 1)]
                base = ".".join(up + ([n.module] if n.module else []))
            for a in n.names:
                out[a.asname or a.name] = ("name", base, a.name)
    return out
