"""Frame obligations for numpy/xarray glue code (option(alias_only=True)).

A flow-sensitive MAY-ALIAS abstract interpretation of the real function text (re-read from /repo on every run).  Values are
abstracted to the set of caller-visible buffers they may share memory with; every statement that writes memory in place
(subscript / attribute / augmented assignment, in-place numpy / list / dict / xarray methods, `out=` keywords, calls into
code that is not modelled) is an EFFECT on every buffer its target may alias.  Repository functions reached from the function
are analysed recursively with the caller's abstract arguments (context-sensitive inlining, no summaries to trust).

The obligation per parameter root P:   every effect on a buffer of P lies inside the contract's assigns(...) set.

Soundness argument (what is over-approximated):
  * basic indexing (ints, slices, None, Ellipsis), `.data`, `.values`, `.T`, reshape/ravel/squeeze/transpose/asarray/..., sel/isel,
    shallow copies, containers and xarray constructors built from arrays KEEP the buffers of their operand;
  * advanced indexing (an array / list / np.where tuple in the index), arithmetic, comparisons, copies and the numpy functions
    that numpy documents as returning new arrays give FRESH buffers;
  * an index / value whose kind is not known keeps the buffers (view assumed);
  * a call that is not modelled is assumed to modify, and to return a view of, every buffer reachable from its arguments
    (an effect that is 'possible', not 'definite': the obligation is then undecided, not refuted).
Assumed (listed in the evidence): numpy/xarray functions behave as documented regarding copies vs views and in-place
modification; constructors of repository classes do not write into array arguments; no buffer is reachable through globals.
"""
import ast
import hashlib
from . import extract

# ----------------------------------------------------------------------------------------------------------- numpy knowledge
NP_VIEW = {"asarray", "asanyarray", "ascontiguousarray", "asfortranarray", "reshape", "ravel", "squeeze", "transpose", "swapaxes",
           "moveaxis", "rollaxis", "atleast_1d", "atleast_2d", "atleast_3d", "broadcast_to", "expand_dims", "diagonal", "flip",
           "fliplr", "flipud", "rot90", "real", "imag", "nditer", "ndenumerate", "sliding_window_view", "as_strided", "require",
           "broadcast_arrays", "view"}
NP_SPLIT = {"array_split", "split", "hsplit", "vsplit", "dsplit"}
NP_INPLACE_ARG0 = {"copyto", "put", "place", "putmask", "fill_diagonal", "put_along_axis", "shuffle"}
NP_IDX = {"where1", "nonzero", "unravel_index", "indices", "meshgrid", "gradient", "histogram", "unique_counts", "divmod", "modf",
          "frexp"}
ARR_VIEW_METHODS = {"reshape", "ravel", "squeeze", "transpose", "swapaxes", "view", "diagonal", "newbyteorder", "getfield"}
ARR_INPLACE_METHODS = {"fill", "sort", "put", "itemset", "resize", "partition", "setflags", "setfield", "byteswap", "__setitem__",
                       "__iadd__", "__isub__", "__imul__"}
ARR_FRESH_METHODS = {"astype", "copy", "flatten", "sum", "min", "max", "mean", "std", "var", "any", "all", "argmin", "argmax", "nonzero",
                     "round", "clip", "cumsum", "cumprod", "tolist", "item", "dot", "repeat", "take", "compress", "tobytes", "prod",
                     "argsort", "searchsorted", "conj", "trace", "ptp", "tostring", "choose", "argpartition", "dump", "dumps",
                     "tofile", "isnull", "notnull", "count", "median", "quantile", "to_numpy", "equals", "identical", "rint",
                     "fillna", "where", "interp", "round_", "to_dict", "to_masked_array", "get_index", "to_index", "isin",
                     "broadcast_equals", "reduce", "rolling", "coarsen", "groupby", "interpolate_na", "pad", "shift", "roll", "diff",
                     "rank", "cumulative", "dropna", "ffill", "bfill", "combine_first", "to_dataframe", "to_series", "to_pandas",
                     "to_netcdf", "to_dataset", "to_array", "to_dataarray", "map", "apply", "pipe"}
XR_VIEW_METHODS = {"sel", "isel", "squeeze", "transpose", "rename", "drop_vars", "drop", "assign_coords", "assign", "assign_attrs",
                   "expand_dims", "swap_dims", "reset_coords", "set_coords", "drop_sel", "drop_isel", "head", "tail", "thin", "stack",
                   "unstack", "reindex", "reindex_like", "sortby", "chunk", "compute", "load", "persist", "unify_chunks", "set_index",
                   "reset_index", "rename_vars", "rename_dims", "broadcast_like", "get", "filter_by_attrs", "loc", "variable", "drop_dims",
                   "drop_indexes", "drop_duplicates", "reset_encoding", "drop_encoding", "as_numpy", "copy_"}
DS_INPLACE_METHODS = {"update", "close", "__setitem__", "__delitem__"}
DICT_PURE = {"get", "keys", "values", "items", "copy", "__contains__", "fromkeys"}
DICT_INPLACE = {"update", "pop", "setdefault", "clear", "popitem", "__setitem__", "__delitem__"}
LIST_INPLACE = {"append", "extend", "insert", "pop", "remove", "sort", "reverse", "clear", "add", "discard"}
PURE_ANY = {"index", "count", "format", "join", "split", "strip", "lower", "upper", "startswith", "endswith", "replace", "encode",
            "decode", "isdigit", "find", "rfind", "lstrip", "rstrip", "title", "zfill", "is_integer", "bit_length", "total_seconds",
            "isoformat", "hex", "__len__", "__iter__", "splitlines", "partition_", "casefold", "capitalize", "center", "ljust",
            "rjust", "rsplit", "isalpha", "isnumeric", "isspace", "islower", "isupper"}
# methods of external library objects (json_checker.Checker, transitions.Machine) assumed not to write into array buffers
EXT_PURE_METHODS = {"validate", "add_transitions", "remove_transitions", "set_state", "add_transition", "get_triggers", "get_transitions"}
PURE_BUILTINS = {"len", "int", "float", "str", "bool", "abs", "isinstance", "issubclass", "min", "max", "sum", "round", "print", "range",
                 "type", "id", "hash", "repr", "divmod", "any", "all", "pow", "ord", "chr", "callable", "hasattr", "format", "bin",
                 "hex", "oct", "complex", "bytes", "frozenset", "set", "slice", "object", "super", "open", "input", "vars", "dir",
                 "iter", "next", "prange"}
PURE_MODULE_PREFIX = ("logging.", "warnings.", "math.", "os.", "json.", "sys.", "re.", "itertools.", "functools.", "operator.",
                      "typing.", "pathlib.", "string.", "time.", "datetime.", "collections.", "scipy.", "numba.", "json_checker.",
                      "pkg_resources.", "importlib.", "textwrap.", "errno.", "ast.", "builtins.", "rasterio.", "skimage.")


class AV:
    """abstract value"""
    __slots__ = ("kind", "bufs", "ndim", "items", "fields", "elem", "fn", "root")

    def __init__(self, kind, bufs=(), ndim=None, items=None, fields=None, elem=None, fn=None, root=None):
        self.kind = kind
        self.bufs = frozenset(bufs)
        self.ndim = ndim
        self.items = items
        self.fields = fields
        self.elem = elem
        self.fn = fn
        self.root = root

    def __repr__(self):
        return "AV(%s,%s)" % (self.kind, sorted(self.bufs))


SCALAR = AV("scalar")
NONE = AV("scalar")


def is_fresh(b):
    return b.startswith("fresh:")


def reach(v, seen=None):
    """every buffer reachable from an abstract value"""
    if seen is None:
        seen = set()
    if v is None or id(v) in seen:
        return frozenset()
    seen.add(id(v))
    out = set(v.bufs)
    if v.kind == "ds" and v.root:
        out.add(v.root + ".*")
    for it in (v.items or []):
        out |= reach(it, seen)
    for it in (v.fields or {}).values():
        out |= reach(it, seen)
    if v.elem is not None:
        out |= reach(v.elem, seen)
    return frozenset(out)


def join(a, b):
    if a is b or b is None:
        return a
    if a is None:
        return b
    if a.kind == b.kind:
        if a.kind == "scalar":
            return a
        items = None
        if a.items is not None and b.items is not None and len(a.items) == len(b.items):
            items = [join(x, y) for x, y in zip(a.items, b.items)]
        elem = join(a.elem, b.elem) if (a.elem is not None or b.elem is not None) else None
        if items is None and (a.items or b.items):
            for it in (a.items or []) + (b.items or []):
                elem = join(elem, it)
        fields = None
        if a.fields is not None or b.fields is not None:
            fields = dict(a.fields or {})
            for k, v in (b.fields or {}).items():
                fields[k] = join(fields.get(k), v)
        return AV(a.kind, a.bufs | b.bufs, a.ndim if a.ndim == b.ndim else None, items, fields, elem,
                  a.fn if a.fn == b.fn else None, a.root if a.root == b.root else (a.root or b.root))
    if a.kind == "scalar" and not reach(b):
        return b
    if b.kind == "scalar" and not reach(a):
        return a
    return AV("unknown", reach(a) | reach(b))


def env_join(e1, e2):
    if e1 is None:
        return e2
    if e2 is None:
        return e1
    out = {}
    for k in set(e1) | set(e2):
        out[k] = join(e1.get(k), e2.get(k))
    return out


def env_eq(e1, e2):
    if set(e1) != set(e2):
        return False
    for k in e1:
        a, b = e1[k], e2[k]
        if a is b:
            continue
        if a.kind != b.kind or reach(a) != reach(b) or a.ndim != b.ndim:
            return False
    return True


class Effect:
    def __init__(self, buf, line, func, what, definite):
        self.buf, self.line, self.func, self.what, self.definite = buf, line, func, what, definite

    def __repr__(self):
        return "%s written at %s:%d (%s%s)" % (self.buf, self.func, self.line, self.what, "" if self.definite else "; possible")


class _Return(Exception):
    pass


class Analysis:
    MAX_DEPTH = 8

    def __init__(self, hints=None):
        self.effects = []
        self.fresh_n = 0
        self.stack = []
        self.visited = 0
        self.unmodelled = []   # calls treated conservatively
        self.inlined = set()
        self.hints = hints or {}   # attribute / variable name -> class qualname (plugin instances)
        self.assumed = set()

    # ------------------------------------------------------------------------------------------------------------ helpers
    def fresh(self, kind="arr", line=0, ndim=None, **kw):
        return AV(kind, {"fresh:%d:%s%d" % (line, self.stack[-1][0].split(".")[-1] if self.stack else "", len(self.stack))}, ndim, **kw)

    def effect(self, bufs, line, what, definite=True):
        bufs = [b for b in bufs if not is_fresh(b)]
        d = definite and len(bufs) == 1
        for b in bufs:
            self.effects.append(Effect(b, line, self.stack[-1][0] if self.stack else "?", what, d))

    def conservative(self, name, vals, line):
        r = set()
        for v in vals:
            r |= reach(v)
        self.unmodelled.append("%s (%s:%d)" % (name, self.stack[-1][0] if self.stack else "?", line))
        self.effect(sorted(r), line, "may be modified by the unmodelled call %s" % name, definite=False)
        return AV("unknown", r)

    # ------------------------------------------------------------------------------------------------------ function level
    def run_function(self, qual, args, kwargs, line=0):
        """analyse repository function `qual` with abstract arguments; -> abstract result"""
        if len(self.stack) >= self.MAX_DEPTH or any(q == qual for q, _ in self.stack):
            return self.conservative(qual + " [recursion/depth]", list(args) + list(kwargs.values()), line)
        try:
            fi = extract.load_function(qual)
        except Exception:
            return self.conservative(qual + " [source not found]", list(args) + list(kwargs.values()), line)
        self.inlined.add(qual)
        fn = fi.node
        env = {}
        params = [a.arg for a in fn.args.args]
        defaults = fn.args.defaults
        dflt = dict(zip(params[len(params) - len(defaults):], defaults))
        pos = list(args)
        ann = {a.arg: ast.unparse(a.annotation) for a in fn.args.args if a.annotation is not None}
        for i, p in enumerate(params):
            if pos:
                env[p] = pos.pop(0)
            elif p in kwargs:
                env[p] = kwargs[p]
            elif p in dflt:
                env[p] = SCALAR  # defaults are immutable literals (None / numbers / strings) in this code base
            else:
                env[p] = AV("unknown")
        for p in params:
            if ann.get(p) in ("int", "float", "str", "bool") and env[p].kind in ("unknown", "objfield"):
                self.assumed.add("parameter %s of %s, annotated %s, receives an immutable scalar" % (p, qual, ann[p]))
                env[p] = SCALAR
        for a in fn.args.kwonlyargs:
            env[a.arg] = kwargs.get(a.arg, SCALAR)
        if fn.args.vararg:
            env[fn.args.vararg.arg] = AV("tuple", items=pos)
        if fn.args.kwarg:
            env[fn.args.kwarg.arg] = AV("dict", fields={k: v for k, v in kwargs.items() if k not in params})
        return self.run_body(qual, fi, fn, env)

    def run_body(self, qual, fi, fn, env):
        self.stack.append((qual, fi))
        self.returns = getattr(self, "returns", [])
        saved = self.returns
        self.returns = []
        try:
            out = self.block(fn.body, env)
            res = None
            for r in self.returns:
                res = join(res, r)
            if out is not None:   # falls off the end: returns None
                res = join(res, NONE) if res is not None else NONE
            return res if res is not None else NONE
        finally:
            self.returns = saved
            self.stack.pop()

    # ------------------------------------------------------------------------------------------------------------ statements
    def block(self, stmts, env):
        """-> env after the block, or None when every path left it (return/raise/break/continue)"""
        for s in stmts:
            if env is None:
                return None
            env = self.stmt(s, env)
        return env

    def stmt(self, s, env):
        self.visited += 1
        m = getattr(self, "s_" + type(s).__name__, None)
        if m is None:
            raise NotImplementedError("statement %s (line %d)" % (type(s).__name__, s.lineno))
        return m(s, env)

    def s_Pass(self, s, env):
        return env

    s_Global = s_Nonlocal = s_Import = s_ImportFrom = s_Assert = s_Pass

    def s_Expr(self, s, env):
        self.eval(s.value, env)
        return env

    def s_Return(self, s, env):
        self.returns.append(self.eval(s.value, env) if s.value is not None else NONE)
        return None

    def s_Raise(self, s, env):
        if s.exc is not None:
            self.eval(s.exc, env)
        return None

    def s_Break(self, s, env):
        self.loops[-1]["break"] = env_join(self.loops[-1]["break"], env)
        return None

    def s_Continue(self, s, env):
        self.loops[-1]["cont"] = env_join(self.loops[-1]["cont"], env)
        return None

    def s_Delete(self, s, env):
        env = dict(env)
        for t in s.targets:
            if isinstance(t, ast.Name):
                env.pop(t.id, None)
            elif isinstance(t, ast.Subscript):
                base = self.eval(t.value, env)
                self.store_into(base, t, None, env, "del")
        return env

    def s_Assign(self, s, env):
        v = self.eval(s.value, env)
        env = dict(env)
        for t in s.targets:
            self.assign(t, v, env, s.lineno)
        return env

    def s_AnnAssign(self, s, env):
        if s.value is None:
            return env
        v = self.eval(s.value, env)
        env = dict(env)
        self.assign(s.target, v, env, s.lineno)
        return env

    def s_AugAssign(self, s, env):
        v = self.eval(s.value, env)
        env = dict(env)
        t = s.target
        if isinstance(t, ast.Name):
            cur = env.get(t.id, AV("unknown"))
            if cur.kind == "scalar" or (cur.kind == "arr" and cur.ndim == 0):
                env[t.id] = SCALAR if v.kind == "scalar" else self.fresh("arr", s.lineno)
            elif cur.kind in ("tuple",):
                env[t.id] = AV("tuple", elem=join(self.elem_of(cur), self.elem_of(v)))
            else:   # ndarray / DataArray / list / unknown: the operator works in place
                self.effect(sorted(reach(cur) if cur.kind in ("list", "unknown") else cur.bufs), s.lineno,
                            "augmented assignment to %s" % t.id)
                if cur.kind == "list":
                    env[t.id] = AV("list", cur.bufs, elem=join(self.elem_of(cur), self.elem_of(v)))
        elif isinstance(t, ast.Attribute):
            cur = self.eval(t, env)
            if cur.kind == "scalar" or cur.kind == "func":
                self.store_attr(self.eval(t.value, env), t, SCALAR if v.kind == "scalar" else self.fresh("arr", s.lineno), env)
            else:   # whatever the attribute holds is modified in place (ndarray / DataArray / list semantics)
                self.effect(sorted(reach(cur)), s.lineno, "augmented assignment to %s" % ast.unparse(t)[:60],
                            definite=cur.kind in ("arr", "da"))
        else:
            base = self.eval(t.value, env)
            self.store_into(base, t, v, env, "augmented assignment")
        return env

    def assign(self, t, v, env, line):
        if isinstance(t, ast.Name):
            env[t.id] = v
        elif isinstance(t, (ast.Tuple, ast.List)):
            n = len(t.elts)
            for i, e in enumerate(t.elts):
                if isinstance(e, ast.Starred):
                    self.assign(e.value, AV("list", elem=self.elem_of(v)), env, line)
                elif v.items is not None and len(v.items) == n:
                    self.assign(e, v.items[i], env, line)
                else:
                    self.assign(e, self.elem_of(v), env, line)
        elif isinstance(t, ast.Subscript):
            base = self.eval(t.value, env)
            self.store_into(base, t, v, env, "assignment")
        elif isinstance(t, ast.Attribute):
            base = self.eval(t.value, env)
            self.store_attr(base, t, v, env)
        elif isinstance(t, ast.Starred):
            self.assign(t.value, v, env, line)
        else:
            raise NotImplementedError("assignment target %s" % type(t).__name__)

    def store_into(self, base, t, v, env, how):
        line = t.lineno
        txt = ast.unparse(t)[:80]
        if base.kind == "ds":
            key = t.slice.value if isinstance(t.slice, ast.Constant) else None
            self.effect([base.root + "{}"] if base.root else sorted(base.bufs), line, "%s of dataset variable %s" % (how, txt))
            if key is not None and isinstance(key, str):
                self.effect([base.root + "." + key] if base.root else [], line, "%s of dataset variable %s" % (how, txt))
                if v is not None:
                    base.fields[key] = AV("da", v.bufs if v.kind in ("arr", "da", "unknown") else reach(v), v.ndim)
                else:
                    base.fields.pop(key, None)
            elif v is not None:
                base.elem = join(base.elem, AV("da", reach(v)))
            return
        if base.kind in ("arr", "da"):
            self.effect(sorted(base.bufs), line, "%s to %s" % (how, txt))
            return
        if base.kind in ("list", "dict", "coords", "attrs"):
            self.effect(sorted(base.bufs), line, "%s to %s" % (how, txt))
            if v is not None:
                if base.kind == "dict" and isinstance(t.slice, ast.Constant) and base.fields is not None:
                    base.fields[t.slice.value] = v
                else:
                    base.elem = join(base.elem, v)
            return
        if base.kind == "scalar":
            return
        self.effect(sorted(reach(base)), line, "%s to %s" % (how, txt), definite=False)

    def store_attr(self, base, t, v, env):
        line = t.lineno
        txt = ast.unparse(t)[:80]
        if base.kind == "ds":
            self.effect([base.root + ("." + t.attr if t.attr == "attrs" else "{}")] if base.root else sorted(base.bufs), line,
                        "attribute store %s" % txt)
            if t.attr != "attrs":
                base.fields[t.attr] = AV("da", reach(v))
            return
        if base.kind == "da":
            if t.attr in ("data", "values"):
                self.effect(sorted(base.bufs), line, "attribute store %s" % txt)
            else:
                self.effect(sorted(b + "." + t.attr if not is_fresh(b) else b for b in base.bufs), line, "attribute store %s" % txt)
            return
        if base.kind == "obj":
            self.effect([base.root + "{}." + t.attr], line, "attribute rebinding %s" % txt)
            base.fields[t.attr] = v
            return
        if base.kind == "arr":
            self.effect(sorted(base.bufs), line, "attribute store %s" % txt)
            return
        self.effect(sorted(reach(base)), line, "attribute store %s" % txt, definite=False)

    def s_If(self, s, env):
        self.eval(s.test, env)
        e1 = self.block(s.body, dict(env))
        e2 = self.block(s.orelse, dict(env)) if s.orelse else env
        return env_join(e1, e2)

    def loop(self, body, orelse, env, bind):
        self.loops = getattr(self, "loops", [])
        ctx = {"break": None, "cont": None}
        self.loops.append(ctx)
        n_eff = len(self.effects)
        head = env
        try:
            for _ in range(8):
                del self.effects[n_eff:]   # effects are re-collected on each iteration; the last (largest) pass is kept
                ctx["cont"] = None
                e = dict(head)
                bind(e)
                out = self.block(body, e)
                nxt = env_join(env_join(head, out), ctx["cont"])
                if env_eq(nxt, head):
                    break
                head = nxt
            else:
                raise NotImplementedError("loop fixpoint not reached")
        finally:
            self.loops.pop()
        ex = head
        if orelse:
            ex = self.block(orelse, dict(ex))
        return env_join(ex, ctx["break"])

    def s_For(self, s, env):
        it = self.eval(s.iter, env)
        el = self.elem_of(it)

        def bind(e):
            self.assign(s.target, el, e, s.lineno)
        return self.loop(s.body, s.orelse, env, bind)

    def s_While(self, s, env):
        def bind(e):
            self.eval(s.test, e)
        return self.loop(s.body, s.orelse, env, bind)

    def s_With(self, s, env):
        env = dict(env)
        for it in s.items:
            v = self.eval(it.context_expr, env)
            if it.optional_vars is not None:
                self.assign(it.optional_vars, v, env, s.lineno)
        return self.block(s.body, env)

    def s_Try(self, s, env):
        out = self.block(s.body, dict(env))
        mid = env_join(env, out)
        res = self.block(s.orelse, dict(out)) if (s.orelse and out is not None) else out
        for h in s.handlers:
            e = dict(mid)
            if h.name:
                e[h.name] = AV("scalar")
            res = env_join(res, self.block(h.body, e))
        if s.finalbody:
            res = self.block(s.finalbody, dict(res if res is not None else mid))
        return res

    def s_FunctionDef(self, s, env):
        env = dict(env)
        env[s.name] = AV("func", fn=("local", s, env))
        return env

    def s_ClassDef(self, s, env):
        env = dict(env)
        env[s.name] = AV("func", fn=("localclass", s.name))
        return env

    # ---------------------------------------------------------------------------------------------------------- expressions
    def elem_of(self, v):
        if v is None:
            return AV("unknown")
        if v.kind == "scalar":
            return SCALAR
        if v.kind in ("arr", "da"):
            if v.ndim is not None and v.ndim <= 1:
                return SCALAR
            return AV(v.kind, v.bufs, v.ndim - 1 if v.ndim else None)
        if v.kind in ("tuple", "list", "idx", "iter"):
            r = v.elem
            for it in (v.items or []):
                r = join(r, it)
            return r if r is not None else SCALAR
        if v.kind == "dict" or v.kind == "ds" or v.kind == "coords" or v.kind == "attrs":
            return SCALAR   # iteration yields keys
        return AV("unknown", reach(v))

    def eval(self, n, env):
        m = getattr(self, "e_" + type(n).__name__, None)
        if m is None:
            raise NotImplementedError("expression %s (line %d)" % (type(n).__name__, getattr(n, "lineno", 0)))
        return m(n, env)

    def e_Constant(self, n, env):
        return SCALAR

    def e__Pre(self, n, env):
        return n.av

    e_JoinedStr = e_FormattedValue = e_Constant

    def e_Slice(self, n, env):
        for x in (n.lower, n.upper, n.step):
            if x is not None:
                self.eval(x, env)
        return AV("scalar", fn="slice")

    def e_Name(self, n, env):
        if n.id in env:
            return env[n.id]
        return self.global_name(n.id)

    def global_name(self, name):
        fi = self.stack[-1][1] if self.stack else None
        if fi is not None:
            imps = self.imports(fi.modname)
            if name in imps:
                q = imps[name]
                return AV("func", fn=q)
            # module-level function / class / constant of the same module
            try:
                mod = extract.load_module(fi.modname)
                tree = mod[0] if isinstance(mod, tuple) else mod
                for st in tree.body:
                    if isinstance(st, (ast.FunctionDef, ast.ClassDef)) and st.name == name:
                        return AV("func", fn=fi.modname + "." + name)
            except Exception:
                pass
        if name in PURE_BUILTINS or name in ("list", "tuple", "dict", "sorted", "reversed", "enumerate", "zip", "filter", "map",
                                             "getattr", "setattr", "True", "False", "None"):
            return AV("func", fn="builtins." + name)
        return SCALAR   # module-level constant (literal tables); mutable module globals are an assumption

    _imp_cache = {}

    def imports(self, modname):
        if modname not in self._imp_cache:
            out = {}
            try:
                for k, v in extract.module_imports(modname).items():
                    out[k] = v[1] if v[0] == "module" else v[1] + "." + v[2]
            except Exception:
                pass
            self._imp_cache[modname] = out
        return self._imp_cache[modname]

    def e_Attribute(self, n, env):
        base = self.eval(n.value, env)
        a = n.attr
        k = base.kind
        if k == "func" and isinstance(base.fn, str):
            if a.isupper() or (base.fn in ("numpy", "np", "math") and a in ("inf", "nan", "pi", "e", "newaxis")):
                return SCALAR   # module-level constant
            return AV("func", fn=base.fn + "." + a)
        if k == "ds":
            if a == "attrs":
                return AV("attrs", {base.root + ".attrs"} if base.root else base.bufs)
            if a in ("coords", "indexes"):
                return AV("coords", root=base.root, fields=base.fields, bufs=base.bufs)
            if a in ("data_vars", "variables"):
                return AV("ds", base.bufs, fields=base.fields, root=base.root, elem=base.elem)
            if a in ("sizes", "dims", "nbytes", "encoding"):
                return SCALAR
            if a in ("copy", "sel", "isel", "update", "close", "drop_vars", "rename", "assign_coords", "assign", "expand_dims",
                     "squeeze", "transpose", "get", "keys", "values", "items", "where", "fillna", "astype", "merge", "drop",
                     "to_netcdf", "load", "compute", "interp", "reindex", "assign_attrs", "pipe", "map", "apply", "equals",
                     "identical", "to_array", "to_dataarray", "rename_vars", "rename_dims", "set_coords", "reset_coords",
                     "swap_dims", "stack", "unstack", "head", "tail", "thin", "pad", "shift", "roll", "diff", "dropna",
                     "isnull", "notnull", "count", "mean", "sum", "min", "max", "median", "std", "var", "coarsen", "rolling",
                     "groupby", "sortby", "chunk", "persist", "filter_by_attrs", "broadcast_like", "reindex_like", "drop_dims",
                     "drop_sel", "drop_isel", "set_index", "reset_index", "to_dict", "to_dataframe", "as_numpy", "cumsum",
                     "quantile", "rank", "round", "clip", "any", "all", "argmin", "argmax", "idxmin", "idxmax"):
                return AV("func", fn=("method", base, a))
            return self.ds_var(base, a)
        if k == "coords":
            if a in ("get", "keys", "values", "items", "update"):
                return AV("func", fn=("method", base, a))
            return self.ds_var(AV("ds", base.bufs, fields=base.fields, root=base.root), "coords." + a, coords=True)
        if k == "da":
            if a in ("data", "values", "T", "real", "imag", "variable", "loc"):
                return AV("arr" if a in ("data", "values") else "da", base.bufs, base.ndim)
            if a in ("shape", "size", "dtype", "ndim", "dims", "name", "nbytes", "sizes", "encoding", "indexes"):
                return SCALAR
            if a == "attrs":
                return AV("attrs", {b + ".attrs" if not is_fresh(b) else b for b in base.bufs})
            if a == "coords":
                return AV("coords", bufs={b + ".coords" if not is_fresh(b) else b for b in base.bufs})
            return AV("func", fn=("method", base, a))
        if k == "arr":
            if a in ("T", "real", "imag", "flat", "base"):
                return AV("arr", base.bufs, base.ndim)
            if a in ("shape", "size", "dtype", "ndim", "nbytes", "itemsize", "strides", "flags"):
                return SCALAR
            return AV("func", fn=("method", base, a))
        if k == "obj":
            if base.fields is not None and a in base.fields:
                return base.fields[a]
            # a method of the object's class (or of the class given as a hint), else an opaque field
            if isinstance(base.fn, tuple):
                alts = []
                for c in base.fn:
                    o = AV("obj", root=base.root, fields=base.fields, fn=c)
                    q = self.resolve_method(o, a)
                    if q is None:
                        alts = None
                        break
                    alts.append(AV("func", fn=("bound", o, q)))
                if alts:
                    return AV("func", fn=("choice", alts))
                return AV("objfield", {base.root + "." + a}, root=base.root + "." + a)
            q = self.resolve_method(base, a)
            if q is not None:
                return AV("func", fn=("bound", base, q))
            d = self.init_attr(base, a)
            if d is not None:
                return d
            hint = self.hints.get(base.root + "." + a)
            if hint:
                cands = self.all_registered(hint) or [hint]
                self.assumed.add("%s.%s holds an instance of %s" % (base.root, a, " / ".join(c.split(".")[-1] for c in cands)))
                return AV("obj", root=base.root + "." + a, fields={}, fn=cands[0] if len(cands) == 1 else tuple(cands))
            v = AV("objfield", {base.root + "." + a}, root=base.root + "." + a)
            return v
        if k == "objfield":
            return AV("func", fn=("method", base, a))
        if k in ("scalar",):
            return AV("func", fn=("method", base, a)) if a not in ("real", "imag") else SCALAR
        return AV("func", fn=("method", base, a))

    def ds_var(self, base, key, coords=False):
        if base.fields is not None and key in base.fields:
            return base.fields[key]
        if base.root is None:
            return AV("da", reach(base))
        v = AV("da", {base.root + "." + key})
        if base.fields is not None:
            base.fields[key] = v
        return v

    def resolve_method(self, obj, name):
        cls = obj.fn   # class qualname
        seen = set()
        while cls and cls not in seen:
            seen.add(cls)
            try:
                node, src, f, modname = extract.load_class(cls)
            except Exception:
                return None
            for m in node.body:
                if isinstance(m, ast.FunctionDef) and m.name == name:
                    return cls + "." + name
            nxt = None
            for b in node.bases:
                bn = ast.unparse(b)
                imps = self.imports(modname)
                head = bn.split(".")[0]
                if head in imps:
                    nxt = imps[head] + bn[len(head):]
                else:
                    nxt = modname + "." + bn
                break
            cls = nxt
        return None

    def index_kind(self, sl, env):
        """-> ('basic'|'advanced'|'maybe', number of integer components)"""
        parts = sl.elts if isinstance(sl, ast.Tuple) else [sl]
        kind, ints = "basic", 0
        for p in parts:
            if isinstance(p, ast.Slice):
                self.e_Slice(p, env)
                continue
            if isinstance(p, ast.Constant):
                if isinstance(p.value, (int, bool)) and p.value is not None and p.value is not Ellipsis:
                    ints += 1
                continue
            v = self.eval(p, env)
            if v.kind == "scalar":
                if v.fn != "slice":
                    ints += 1
            elif v.kind in ("arr", "da", "idx", "list") or (v.kind == "tuple" and reach(v)) or v.kind == "tuple":
                if v.kind == "arr" and v.ndim == 0:
                    ints += 1
                else:
                    kind = "advanced"
            else:
                if kind != "advanced":
                    kind = "maybe"
        return kind, ints

    def e_Subscript(self, n, env):
        base = self.eval(n.value, env)
        k = base.kind
        if k == "ds":
            if isinstance(n.slice, ast.Constant) and isinstance(n.slice.value, str):
                return self.ds_var(base, n.slice.value)
            kv = self.eval(n.slice, env)
            if kv.kind == "list":   # ds[[names]] -> sub-dataset sharing the buffers
                return AV("ds", reach(base), fields={}, root=None)
            return AV("da", {base.root + ".*"} if base.root else reach(base))
        if k == "coords":
            if isinstance(n.slice, ast.Constant) and isinstance(n.slice.value, str) and base.root:
                return self.ds_var(AV("ds", base.bufs, fields=base.fields, root=base.root), "coords." + n.slice.value)
            return AV("da", reach(base) | ({base.root + ".*"} if base.root else set()))
        if k == "attrs":
            self.eval(n.slice, env)
            return AV("unknown", base.bufs)   # attribute values may be mutable (lists / dicts)
        if k in ("arr", "da"):
            ik, ints = self.index_kind(n.slice, env)
            if ik == "advanced":
                return self.fresh(k, n.lineno)
            nd = base.ndim - ints if (base.ndim is not None and ik == "basic") else None
            if nd is not None and nd <= 0:
                return SCALAR
            return AV(k, base.bufs, nd)
        if k in ("tuple", "list", "idx"):
            self.eval(n.slice, env)
            if isinstance(n.slice, ast.Constant) and isinstance(n.slice.value, int) and base.items is not None \
                    and -len(base.items) <= n.slice.value < len(base.items):
                return base.items[n.slice.value]
            if isinstance(n.slice, ast.Slice):
                return AV(k, base.bufs, items=None, elem=self.elem_of(base))
            return self.elem_of(base)
        if k == "dict":
            self.eval(n.slice, env)
            if isinstance(n.slice, ast.Constant) and base.fields and n.slice.value in base.fields:
                return base.fields[n.slice.value]
            vals = list((base.fields or {}).values())
            if vals and base.elem is None and all(v.kind == "func" for v in vals):
                return AV("func", fn=("choice", vals))
            r = base.elem
            for it in vals:
                r = join(r, it)
            return r if r is not None else AV("unknown", base.bufs)
        if k == "scalar":
            self.eval(n.slice, env)
            return SCALAR
        self.eval(n.slice, env)
        return AV("unknown", reach(base))

    def arith(self, vals, line):
        if all(v.kind in ("scalar", "func") for v in vals):
            return SCALAR
        if any(v.kind in ("arr", "da", "unknown", "objfield") for v in vals):
            k = "da" if any(v.kind == "da" for v in vals) else "arr"
            return self.fresh(k, line)
        if any(v.kind in ("list", "tuple") for v in vals):   # concatenation / repetition: a new container of the same elements
            el = None
            for v in vals:
                if v.kind in ("list", "tuple"):
                    el = join(el, self.elem_of(v))
            return AV("list", {"fresh:%d:c" % line}, elem=el)
        return self.fresh("arr", line)

    def e_BinOp(self, n, env):
        return self.arith([self.eval(n.left, env), self.eval(n.right, env)], n.lineno)

    def e_UnaryOp(self, n, env):
        v = self.eval(n.operand, env)
        if isinstance(n.op, ast.Not):
            return SCALAR
        return self.arith([v], n.lineno)

    def e_Compare(self, n, env):
        vals = [self.eval(n.left, env)] + [self.eval(c, env) for c in n.comparators]
        if all(isinstance(o, (ast.Is, ast.IsNot, ast.In, ast.NotIn)) for o in n.ops):
            return SCALAR
        return self.arith(vals, n.lineno)

    def e_BoolOp(self, n, env):
        r = None
        for v in n.values:
            r = join(r, self.eval(v, env))
        return r

    def e_IfExp(self, n, env):
        self.eval(n.test, env)
        return join(self.eval(n.body, env), self.eval(n.orelse, env))

    def e_Tuple(self, n, env):
        items = []
        for e in n.elts:
            if isinstance(e, ast.Starred):
                return AV("tuple", elem=join(self.elem_of(self.eval(e.value, env)), None))
            items.append(self.eval(e, env))
        return AV("tuple", items=items)

    def e_List(self, n, env):
        v = self.e_Tuple(n, env)
        return AV("list", {"fresh:%d:l%d" % (n.lineno, n.col_offset)}, items=v.items, elem=v.elem)

    def e_Set(self, n, env):
        for e in n.elts:
            self.eval(e, env)
        return SCALAR

    def e_Dict(self, n, env):
        fields, elem = {}, None
        for k, v in zip(n.keys, n.values):
            vv = self.eval(v, env)
            if k is None:
                elem = join(elem, AV("unknown", reach(vv)))
            elif isinstance(k, ast.Constant):
                fields[k.value] = vv
            else:
                self.eval(k, env)
                elem = join(elem, vv)
        return AV("dict", {"fresh:%d:d%d" % (n.lineno, n.col_offset)}, fields=fields, elem=elem)

    def e_Starred(self, n, env):
        return self.eval(n.value, env)

    def e_NamedExpr(self, n, env):
        v = self.eval(n.value, env)
        env[n.target.id] = v
        return v

    def e_Lambda(self, n, env):
        return AV("func", fn=("lambda", n, env))

    def comp(self, n, env, elts):
        e = dict(env)
        for g in n.generators:
            it = self.eval(g.iter, e)
            self.assign(g.target, self.elem_of(it), e, n.lineno)
            for c in g.ifs:
                self.eval(c, e)
        return [self.eval(x, e) for x in elts]

    def e_ListComp(self, n, env):
        (el,) = self.comp(n, env, [n.elt])
        return AV("list", {"fresh:%d:lc" % n.lineno}, elem=el)

    e_GeneratorExp = e_ListComp

    def e_SetComp(self, n, env):
        self.comp(n, env, [n.elt])
        return SCALAR

    def e_DictComp(self, n, env):
        k, v = self.comp(n, env, [n.key, n.value])
        return AV("dict", {"fresh:%d:dc" % n.lineno}, fields={}, elem=v)

    def e_Await(self, n, env):
        return self.eval(n.value, env)

    # ---------------------------------------------------------------------------------------------------------------- calls
    def e_Call(self, n, env):
        f = self.eval(n.func, env)
        args, kwargs = [], {}
        for a in n.args:
            if isinstance(a, ast.Starred):
                v = self.eval(a.value, env)
                if v.items is not None:
                    args += v.items
                else:
                    args.append(self.elem_of(v))
            else:
                args.append(self.eval(a, env))
        for kw in n.keywords:
            v = self.eval(kw.value, env)
            if kw.arg is None:
                for k2, v2 in (v.fields or {}).items():
                    kwargs[k2] = v2
                if v.elem is not None:
                    kwargs["**"] = v.elem
            else:
                kwargs[kw.arg] = v
        line = n.lineno
        if f.kind != "func":
            if f.kind == "scalar":
                return SCALAR
            if f.kind == "objfield" and f.root.split(".")[-1] in EXT_PURE_METHODS:
                self.assumed.add("external method .%s() (json_checker / transitions) does not write into its arguments" % f.root.split(".")[-1])
                return AV("unknown")
            return self.conservative(ast.unparse(n.func)[:60], [f] + args + list(kwargs.values()), line)
        fn = f.fn
        if "out" in kwargs and kwargs["out"].kind != "scalar":
            self.effect(sorted(reach(kwargs["out"])), line, "out= argument of %s" % ast.unparse(n.func)[:40])
        if isinstance(fn, tuple):
            tag = fn[0]
            if tag == "method":
                return self.call_method(fn[1], fn[2], args, kwargs, n)
            if tag == "bound":
                try:
                    static = any("staticmethod" in (d or "") for d in extract.load_function(fn[2]).decorators)
                except Exception:
                    static = False
                return self.run_function(fn[2], ([] if static else [fn[1]]) + args, kwargs, line)
            if tag == "choice":
                r = None
                for alt in fn[1]:
                    tmp = ast.Call(func=_Pre(alt), args=[_Pre(a) for a in args],
                                   keywords=[ast.keyword(arg=k2, value=_Pre(v2)) for k2, v2 in kwargs.items()], lineno=line, col_offset=0)
                    r = join(r, self.e_Call(tmp, env))
                return r
            if tag == "lambda":
                lam, cenv = fn[1], dict(fn[2])
                for p, a in zip([x.arg for x in lam.args.args], args):
                    cenv[p] = a
                return self.eval(lam.body, cenv)
            if tag == "local":
                node, cenv = fn[1], dict(fn[2])
                for p, a in zip([x.arg for x in node.args.args], args):
                    cenv[p] = a
                for p in node.args.args[len(args):]:
                    cenv[p.arg] = kwargs.get(p.arg, SCALAR)
                fi = self.stack[-1][1]
                return self.run_body(self.stack[-1][0] + ".<local>" + node.name, fi, node, cenv)
            return self.conservative(str(fn[:2]), args + list(kwargs.values()), line)
        return self.call_named(fn, args, kwargs, n)

    def call_named(self, q, args, kwargs, n):
        line = n.lineno
        allv = args + list(kwargs.values())
        if q.startswith("builtins."):
            return self.call_builtin(q[9:], args, kwargs, n)
        if q.startswith("numpy.") or q.startswith("np."):
            return self.call_numpy(q.split(".", 1)[1], args, kwargs, n)
        if q.startswith("xarray."):
            return self.call_xarray(q.split(".", 1)[1], args, kwargs, n)
        if q in ("copy.deepcopy",):
            return self.deep_fresh(args[0], line)
        if q in ("copy.copy",):
            return self.shallow(args[0], line)
        if q.startswith(PURE_MODULE_PREFIX):
            return SCALAR if not any(reach(v) for v in allv) else self.fresh("arr", line)
        if q.startswith("pandora."):
            return self.call_repo(q, args, kwargs, n)
        return self.conservative(q, allv, line)

    def resolve_reexport(self, q):
        """pandora.disparity.f where the package __init__ imports f from a sub-module"""
        for _ in range(4):
            head, _, last = q.rpartition(".")
            if not head:
                return q
            try:
                extract.load_function(q)
                return q
            except Exception:
                pass
            try:
                extract.load_class(q)
                return q
            except Exception:
                pass
            imps = self.imports(head) if extract.module_file(head) else {}
            if last in imps and imps[last] != q:
                q = imps[last]
                continue
            return q
        return q

    def call_repo(self, q, args, kwargs, n):
        line = n.lineno
        q = self.resolve_reexport(q)
        # a class: constructor -> a fresh object of that class (assumed not to write into its array arguments)
        try:
            extract.load_function(q)
            is_fn = True
        except Exception:
            is_fn = False
        if is_fn:
            return self.run_function(q, args, kwargs, line)
        is_cls = False
        try:
            extract.load_class(q)
            is_cls = True
        except Exception:
            pass
        if is_cls:
            one = self.registered_subclass(q, n)
            cands = [one] if one else (self.all_registered(q) or [q])
            if not one and len(cands) > 1:
                self.assumed.add("factory %s(...) at %s:%d builds one of the classes registered in the repository: %s"
                                 % (q.split(".")[-1], self.stack[-1][0] if self.stack else "?", line, ", ".join(c.split(".")[-1] for c in cands)))
            root = "fresh:%d:o%d" % (line, len(self.stack))
            fields = {}
            for c in cands:
                o = AV("obj", root=root, fields=fields, fn=c)
                qi = self.resolve_method(o, "__init__")
                if qi is not None:
                    self.run_function(qi, [o] + args, kwargs, line)
                else:
                    self.assumed.add("constructor %s(...) has no __init__ in the repository (object.__init__)" % c)
            return AV("obj", root=root, fields=fields, fn=cands[0] if len(cands) == 1 else tuple(cands))
        # module constant such as cst.PANDORA_MSK_PIXEL_INVALID
        head = q.rsplit(".", 1)[0]
        try:
            consts = extract.module_constants(head)
            if q.rsplit(".", 1)[1] in consts:
                return SCALAR
        except Exception:
            pass
        return self.conservative(q, args + list(kwargs.values()), line)

    _registry = None

    def registry(self):
        import glob
        import os
        if Analysis._registry is None:
            reg = {}
            for f in sorted(glob.glob(os.path.join(extract.REPO, "pandora", "**", "*.py"), recursive=True)):
                mod = os.path.relpath(f, extract.REPO)[:-3].replace(os.sep, ".")
                if mod.endswith(".__init__"):
                    mod = mod[:-9]
                try:
                    tree = extract.load_module(mod)[0]
                except Exception:
                    continue
                for c in ast.walk(tree):
                    if isinstance(c, ast.ClassDef):
                        for d in c.decorator_list:
                            if isinstance(d, ast.Call) and isinstance(d.func, ast.Attribute) and d.func.attr == "register_subclass":
                                bname = ast.unparse(d.func.value).split(".")[-1]
                                for a in d.args:
                                    if isinstance(a, ast.Constant) and isinstance(a.value, str):
                                        reg.setdefault((bname, a.value), []).append(mod + "." + c.name)
            Analysis._registry = reg
        return Analysis._registry

    def registered_subclass(self, base, call):
        """plugin factories: Base(**{"x_method": "name"}) / Base(cfg={"filter_method": "name"}) build the class registered as
        @Base.register_subclass("name") -- resolved syntactically from the literal strings of the call"""
        reg = self.registry()
        names = [c.value for c in ast.walk(call) if isinstance(c, ast.Constant) and isinstance(c.value, str)]
        hits = []
        for v in names:
            hits += reg.get((base.split(".")[-1], v), [])
        if len(set(hits)) == 1:
            self.assumed.add("factory %s(...) at %s:%d builds %s (class registered under the literal method name of the call)"
                             % (base.split(".")[-1], self.stack[-1][0] if self.stack else "?", call.lineno, hits[0]))
            return hits[0]
        return None

    def all_registered(self, base):
        out = []
        for (b, _), cl in sorted(self.registry().items()):
            if b == base.split(".")[-1]:
                for c in cl:
                    if c not in out:
                        out.append(c)
        return out

    def init_attr(self, obj, attr):
        """self.<attr> assigned once, in __init__, to a literal dict of bound methods"""
        if not obj.fn:
            return None
        cls = obj.fn
        try:
            node = extract.load_class(cls)[0]
        except Exception:
            return None
        found = []
        for m in node.body:
            if isinstance(m, ast.FunctionDef):
                for st in ast.walk(m):
                    if isinstance(st, ast.Assign):
                        for t in st.targets:
                            if isinstance(t, ast.Attribute) and isinstance(t.value, ast.Name) and t.value.id == "self" and t.attr == attr:
                                found.append((m.name, st.value))
        if len(found) != 1 or found[0][0] != "__init__" or not isinstance(found[0][1], ast.Dict):
            return None
        fields = {}
        for k, v in zip(found[0][1].keys, found[0][1].values):
            if not (isinstance(k, ast.Constant) and isinstance(v, ast.Attribute) and isinstance(v.value, ast.Name) and v.value.id == "self"):
                return None
            q = self.resolve_method(obj, v.attr)
            if q is None:
                return None
            fields[k.value] = AV("func", fn=("bound", obj, q))
        return AV("dict", {obj.root + "." + attr}, fields=fields)

    def call_builtin(self, name, args, kwargs, n):
        line = n.lineno
        if name in PURE_BUILTINS:
            return SCALAR if name != "range" and name != "prange" else AV("iter", elem=SCALAR)
        if name in ("list", "tuple", "sorted", "reversed"):
            el = self.elem_of(args[0]) if args else None
            return AV("list" if name != "tuple" else "tuple", {"fresh:%d:b" % line} if name != "tuple" else (), elem=el)
        if name == "dict":
            src = args[0] if args else None
            return AV("dict", {"fresh:%d:b" % line}, fields=dict((src.fields if src is not None and src.fields else {}), **kwargs),
                      elem=(AV("unknown", reach(src)) if src is not None and reach(src) else None))
        if name == "enumerate":
            return AV("iter", elem=AV("tuple", items=[SCALAR, self.elem_of(args[0])]))
        if name == "zip":
            return AV("iter", elem=AV("tuple", items=[self.elem_of(a) for a in args]))
        if name == "filter":
            return AV("iter", elem=self.elem_of(args[1]))
        if name == "map":
            return AV("iter", elem=AV("unknown", reach(args[1]) if len(args) > 1 else ()))
        if name == "getattr":
            return AV("unknown", reach(args[0]))
        if name == "setattr":
            self.effect(sorted(reach(args[0])), line, "setattr", definite=False)
            return NONE
        return SCALAR

    def call_numpy(self, name, args, kwargs, n):
        line = n.lineno
        last = name.split(".")[-1]
        if last in NP_INPLACE_ARG0 and args:
            self.effect(sorted(reach(args[0])), line, "numpy.%s (in place)" % name)
            return NONE
        if last == "nan_to_num" and "copy" in kwargs:
            self.effect(sorted(reach(args[0])), line, "numpy.nan_to_num(copy=...) may work in place", definite=False)
        if last in ("array", "asarray", "astype") and "copy" in kwargs and args:
            return AV("arr", reach(args[0]))
        if last in NP_VIEW and args:
            a = args[0]
            if a.kind in ("arr", "da", "unknown", "objfield"):
                return AV("arr", reach(a), None)
            return self.fresh("arr", line)
        if last in NP_SPLIT and args:
            a = args[0]
            return AV("list", {"fresh:%d:s" % line}, elem=AV("arr", reach(a), a.ndim))
        if last == "where" and len(args) == 1 or last in NP_IDX:
            return AV("idx", elem=self.fresh("arr", line, 1))
        if last in ("shape", "ndim", "size", "isscalar", "iinfo", "finfo", "dtype", "result_type", "can_cast", "issubdtype",
                    "float32", "float64", "int64", "int32", "int16", "uint16", "uint8", "uint32", "int8", "bool_", "floor_divide_",
                    "errstate", "seterr", "array_equal", "allclose", "isclose_"):
            return SCALAR if last not in ("float32", "float64", "int64", "int32", "int16", "uint16", "uint8", "uint32", "int8",
                                          "bool_") or all(a.kind == "scalar" for a in args) else self.fresh("arr", line)
        if all(v.kind == "scalar" for v in args + list(kwargs.values())) and last in (
                "sqrt", "abs", "floor", "ceil", "rint", "isnan", "isinf", "isfinite", "exp", "log", "minimum", "maximum", "round",
                "sign", "power", "square", "fabs", "trunc", "int", "float", "log2", "log10", "sin", "cos", "mod", "fmod",
                "hypot", "arctan2", "nanmin", "nanmax", "min", "max", "sum", "mean", "prod"):
            return SCALAR
        nd = None
        if last in ("zeros", "ones", "empty", "full") and n.args and isinstance(n.args[0], ast.Tuple):
            nd = len(n.args[0].elts)
        if last in ("arange", "linspace"):
            nd = 1
        return self.fresh("arr", line, nd)

    def call_xarray(self, name, args, kwargs, n):
        line = n.lineno
        last = name.split(".")[-1]
        if last == "Dataset":
            root = "fresh:%d:ds%d" % (line, len(self.stack))
            fields = {}
            dv = args[0] if args else kwargs.get("data_vars")
            if dv is not None:
                for k, v in (dv.fields or {}).items():
                    if v.kind == "tuple" and v.items and len(v.items) >= 2:
                        fields[k] = AV("da", reach(v.items[1]), v.items[1].ndim)
                    else:
                        fields[k] = AV("da", reach(v))
                extra = reach(dv.elem) if dv.elem is not None else frozenset()
            else:
                extra = frozenset()
            co = kwargs.get("coords")
            if co is not None:
                for k, v in (co.fields or {}).items():
                    fields["coords." + k] = AV("da", reach(v))
            return AV("ds", {root} | extra, fields=fields, root=root)
        if last == "DataArray":
            data = args[0] if args else kwargs.get("data")
            b = reach(data) if data is not None else frozenset()
            return AV("da", b or {"fresh:%d:da%d" % (line, len(self.stack))}, data.ndim if data is not None else None)
        if last in ("open_dataset", "open_dataarray", "concat", "merge", "zeros_like", "ones_like", "full_like", "where", "ufuncs",
                    "apply_ufunc", "align", "broadcast", "combine_by_coords"):
            if last in ("merge", "align", "broadcast"):   # may share the buffers of the operands
                r = set()
                for v in args + list(kwargs.values()):
                    r |= reach(v)
                return AV("ds", r, fields={}, root=None)
            return AV("ds", {"fresh:%d:x%d" % (line, len(self.stack))}, fields={}, root="fresh:%d:x%d" % (line, len(self.stack)))
        return self.conservative("xarray." + name, args + list(kwargs.values()), line)

    def deep_fresh(self, v, line):
        tag = "fresh:%d:cp%d" % (line, len(self.stack))
        if v.kind == "scalar":
            return v
        if v.kind == "ds":
            return AV("ds", {tag}, fields={}, root=tag)
        if v.kind in ("arr", "da"):
            return AV(v.kind, {tag}, v.ndim)
        if v.kind in ("tuple", "list", "dict"):
            return AV(v.kind, {tag}, items=[self.deep_fresh(i, line) for i in v.items] if v.items is not None else None,
                      fields={k: self.deep_fresh(x, line) for k, x in v.fields.items()} if v.fields is not None else None,
                      elem=self.deep_fresh(v.elem, line) if v.elem is not None else None)
        return AV(v.kind if v.kind != "objfield" else "unknown", {tag})

    def shallow(self, v, line):
        tag = "fresh:%d:sc%d" % (line, len(self.stack))
        if v.kind == "ds":
            # new structure, shared buffers
            f = dict(v.fields or {})
            return AV("ds", {tag} | (reach(v) - {v.root + ".*"} if v.root else reach(v)), fields=_SharedFields(f, v, self), root=tag)
        if v.kind in ("list", "dict"):
            return AV(v.kind, {tag}, items=list(v.items) if v.items is not None else None,
                      fields=dict(v.fields) if v.fields is not None else None, elem=v.elem)
        if v.kind in ("arr", "da"):
            return self.fresh(v.kind, line, v.ndim)   # copy.copy(ndarray) copies the data
        return AV("unknown", reach(v))

    def call_method(self, recv, name, args, kwargs, n):
        line = n.lineno
        k = recv.kind
        allv = args + list(kwargs.values())
        if name in EXT_PURE_METHODS and k in ("objfield", "unknown", "arr", "obj"):
            self.assumed.add("external method .%s() (json_checker / transitions) does not write into its arguments" % name)
            return AV("unknown", reach(recv))
        if k in ("arr", "da"):
            if name == "copy":
                deep = kwargs.get("deep")
                if k == "da" and deep is not None and not (isinstance(n.keywords[0].value, ast.Constant) and n.keywords[0].value.value is True):
                    return AV("da", recv.bufs, recv.ndim)   # deep=False / unknown: shares the buffer
                return self.fresh(k, line, recv.ndim)
            if name == "astype" and "copy" in kwargs:
                return AV(k, recv.bufs, recv.ndim)
            if name in ARR_INPLACE_METHODS:
                self.effect(sorted(recv.bufs), line, "in-place method .%s()" % name)
                return NONE
            if name in ARR_VIEW_METHODS or (k == "da" and name in XR_VIEW_METHODS):
                return AV(k, recv.bufs, None)
            if name in ARR_FRESH_METHODS:
                if name in ("item", "tolist", "sum", "min", "max", "mean", "any", "all", "argmin", "argmax", "std") and not allv:
                    return SCALAR
                return self.fresh(k, line)
            return self.conservative("<%s>.%s" % (k, name), [recv] + allv, line)
        if k == "ds":
            if name == "copy":
                deep = kwargs.get("deep")
                is_true = any(kw.arg == "deep" and isinstance(kw.value, ast.Constant) and kw.value.value is True for kw in n.keywords)
                if is_true:
                    return self.deep_fresh(recv, line)
                return self.shallow(recv, line)
            if name in ("update", "merge") and name == "update":
                self.effect([recv.root + "{}"] if recv.root else sorted(recv.bufs), line, "Dataset.update (in place)")
                for v in allv:
                    recv.elem = join(recv.elem, AV("da", reach(v)))
                return NONE
            if name == "close":
                return NONE
            if name in XR_VIEW_METHODS or name in ("keys", "values", "items", "get", "where", "merge"):
                tag = "fresh:%d:v%d" % (line, len(self.stack))
                if name in ("keys",):
                    return AV("iter", elem=SCALAR)
                if name in ("values", "get"):
                    return AV("iter" if name == "values" else "da", elem=AV("da", reach(recv)) if name == "values" else None,
                              bufs=reach(recv) if name == "get" else ())
                if name == "items":
                    return AV("iter", elem=AV("tuple", items=[SCALAR, AV("da", reach(recv))]))
                return AV("ds", {tag} | reach(recv), fields=_SharedFields({}, recv, self), root=tag)
            if name in ARR_FRESH_METHODS or name in ("astype", "fillna", "interp", "to_array", "to_dataarray"):
                tag = "fresh:%d:n%d" % (line, len(self.stack))
                return AV("ds", {tag}, fields={}, root=tag)
            return self.conservative("<dataset>.%s" % name, [recv] + allv, line)
        if k in ("dict", "attrs", "coords"):
            if name in DICT_INPLACE:
                self.effect(sorted(recv.bufs), line, "in-place method .%s()" % name)
                for v in allv:
                    recv.elem = join(recv.elem, AV("unknown", reach(v)) if reach(v) else None)
                return AV("unknown", reach(recv)) if name in ("pop", "setdefault", "popitem") else NONE
            if name in ("keys",):
                return AV("iter", elem=SCALAR)
            if name in ("values", "get", "items", "copy"):
                r = recv.elem
                for it in (recv.fields or {}).values():
                    r = join(r, it)
                if k != "dict":
                    r = join(r, AV("unknown", recv.bufs))
                for v in args[1:]:
                    r = join(r, v)
                if name == "get":
                    if k == "dict" and args and isinstance(n.args[0], ast.Constant) and recv.fields and n.args[0].value in recv.fields:
                        return recv.fields[n.args[0].value]
                    return r if r is not None else SCALAR
                if name == "values":
                    return AV("iter", elem=r if r is not None else SCALAR)
                if name == "items":
                    return AV("iter", elem=AV("tuple", items=[SCALAR, r if r is not None else SCALAR]))
                return AV("dict", {"fresh:%d:dc" % line}, fields=dict(recv.fields or {}), elem=join(recv.elem, AV("unknown", recv.bufs) if k != "dict" else None))
            return SCALAR
        if k in ("list", "tuple", "iter", "idx"):
            if name in LIST_INPLACE:
                self.effect(sorted(recv.bufs), line, "in-place method .%s()" % name)
                for v in allv:
                    recv.elem = join(recv.elem, v if name != "extend" else self.elem_of(v))
                if recv.items is not None:
                    for it in recv.items:
                        recv.elem = join(recv.elem, it)
                    recv.items = None
                return self.elem_of(recv) if name == "pop" else NONE
            if name in ("copy",):
                return AV("list", {"fresh:%d:lc" % line}, elem=self.elem_of(recv))
            return SCALAR
        if k == "scalar":
            return SCALAR   # str / number methods
        if name in EXT_PURE_METHODS and k in ("objfield", "unknown", "arr", "obj"):
            self.assumed.add("external method .%s() (json_checker / transitions) does not write into its arguments" % name)
            return AV("unknown", reach(recv))
        if k == "objfield":
            # a method of a plugin instance held in an attribute: resolved through the contract's hints
            cls = self.hints.get(recv.root) or self.hints.get(recv.root.split(".")[-1])
            if cls:
                q = self.resolve_method(AV("obj", fn=cls), name)
                if q:
                    return self.run_function(q, [AV("obj", root=recv.root, fields={}, fn=cls)] + args, kwargs, line)
            if name in PURE_ANY or name in DICT_PURE:
                return AV("unknown", reach(recv))
            return self.conservative("%s.%s" % (recv.root, name), [recv] + allv, line)
        # unknown receiver
        if name in PURE_ANY or name in DICT_PURE or name in ARR_FRESH_METHODS:
            if name in ARR_FRESH_METHODS:
                return self.fresh("arr", line)
            return AV("unknown", reach(recv))
        if name in ARR_VIEW_METHODS or name in XR_VIEW_METHODS:
            return AV("unknown", reach(recv))
        if name in ARR_INPLACE_METHODS or name in LIST_INPLACE or name in DICT_INPLACE:
            self.effect(sorted(reach(recv)), line, "in-place method .%s()" % name, definite=False)
            return AV("unknown", reach(recv))
        return self.conservative("<?>.%s" % name, [recv] + allv, line)


class _Pre(ast.expr):
    """an already evaluated operand"""
    _fields = ()

    def __init__(self, av):
        self.av = av
        self.lineno = 0
        self.col_offset = 0


class _SharedFields(dict):
    """variables of a shallow copy / selection: looked up lazily in the dataset they were taken from (same buffers)"""
    def __init__(self, own, src, an):
        super().__init__(own)
        self.src, self.an = src, an

    def __contains__(self, k):
        return True

    def __getitem__(self, k):
        if dict.__contains__(self, k):
            return dict.__getitem__(self, k)
        v = self.an.ds_var(self.src, k)
        return v

    def get(self, k, d=None):
        return self[k]


# ------------------------------------------------------------------------------------------------------------- contract level
def av_of_type(name, ty):
    if isinstance(ty, dict):
        return AV("ds", fields={}, root=name)
    t = str(ty)
    if t in ("ds", "dataset"):
        return AV("ds", fields={}, root=name)
    if t in ("int", "float", "bool", "str", "none", "scalar"):
        return SCALAR
    if "[" in t and t.endswith("]") and not t.startswith(("list", "dict", "tuple")):
        return AV("arr", {name}, t.count(":") or None)
    if t.startswith("list"):
        return AV("list", {name}, elem=AV("unknown", {name + "[]"}))
    if t.startswith("dict"):
        return AV("dict", {name}, fields={}, elem=AV("unknown", {name + "[]"}))
    if t.startswith("obj:"):
        return AV("obj", root=name, fields={}, fn=t[4:])
    if t in ("obj", "opaque"):
        return AV("obj", root=name, fields={}, fn=None)
    return AV("unknown", {name})


def allowed(buf, assigns):
    for a in assigns:
        if buf == a or buf.startswith(a + ".") or buf.startswith(a + "{") or buf.startswith(a + "["):
            return True
        if a.endswith(".*") and buf.startswith(a[:-1]):
            return True
    return False


def analyse(cc, target):
    """-> (analysis, parameter names, result value)"""
    fi = extract.load_function(target)
    hints = dict(cc.options.get("hints") or {})
    an = Analysis(hints)
    params = [a.arg for a in fi.node.args.args]
    args = []
    for p in params:
        ty = cc.types.get(p)
        if ty is None and p == "self":
            cls = ".".join(target.split(".")[:-1])
            ty = "obj:" + cls
        args.append(av_of_type(p, ty if ty is not None else "unknown"))
    an.top_args = args
    res = an.run_function(target, args, {}, fi.node.lineno)
    return an, params, res, fi
