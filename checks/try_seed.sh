#!/bin/bash
# try_seed.sh <name> <pid> [tier]: apply /verif/seeded/<name>/patch.diff to /repo, run the check, revert.  Prints the verdict.
NAME=$1; PID=$2; TIER=${3:-quick}
cd /repo || exit 2
if [ -n "$(git status --porcelain -- pandora)" ]; then echo "REPO DIRTY - abort"; exit 2; fi
git apply /verif/seeded/$NAME/patch.diff || { echo "patch does not apply"; exit 2; }
cd /verif
timeout 3000 python3-vt checks/check.py $PID --tier $TIER > /verif/seeded/$NAME/check_$PID.log 2>&1
RC=$?
git -C /repo checkout -- .
echo "$NAME $PID exit=$RC $(grep -c '^VIOLATION' /verif/seeded/$NAME/check_$PID.log) violation lines"
grep '^VIOLATION\|^# failed' /verif/seeded/$NAME/check_$PID.log | head -6 | cut -c1-250
