#!/bin/bash
# run every registered check (quick tier) on the current tree, N at a time; print one summary line per property
N=${1:-4}
cd /verif
mkdir -p scratch/logs
printf "C%02d\n" $(seq 1 20) | xargs -P $N -I{} bash -c 'python3-vt checks/check.py {} --tier ${VERIF_TIER:-quick} > scratch/logs/{}.log 2>&1; echo "{} exit=$? $(tail -n 1 scratch/logs/{}.log | cut -c1-150)"'
