"""Regenerate baseline_obligations.json for the given properties from the CURRENT tree (deliberate act; commit the result).
   python3-vt checks/mkbaseline.py C06 C11 ..."""
import json
import os
import sys
HERE = os.path.dirname(os.path.dirname(os.path.abspath(__file__)))
sys.path.insert(0, HERE)
os.chdir(HERE)
from pv import contracts, prove
from checks.check import stable_clause_id

p = os.path.join(HERE, "baseline_obligations.json")
bl = json.load(open(p)) if os.path.exists(p) else {}
db = contracts.ContractDB()
for pid in sys.argv[1:]:
    cs, ls = db.for_property(pid)
    r = prove.prove_targets(db, cs, ls)
    clauses, per = set(), {}
    for x in r["results"]:
        if x["expect_sat"]:
            continue
        ok = x["result"] == "unsat"
        sid = stable_clause_id(x["id"])
        if sid and ok:
            clauses.add(sid)
        key = (x["function"], x["kind"])
        per[key] = per.get(key, True) and ok
    bl[pid] = {"clauses": sorted(clauses), "allproved": sorted([list(k) for k, v in per.items() if v])}
    print(pid, len(clauses), "clauses;", len(bl[pid]["allproved"]), "(function,kind) groups fully proved;",
          len(r["undecided_functions"]), "undecided functions")
json.dump(bl, open(p, "w"), indent=1)
