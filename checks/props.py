"""Per-property registration: claimed level, explanation, property-specific trusted items."""

BOUNDED_TIMEOUT = {"quick": 900, "thorough": 7200}

TRUSTED_BASE = [
    "python ast + pv.extract (function text re-read from /repo on every run; decorators, annotations, docstrings, logging dropped)",
    "pv symbolic executor and its numpy/numba model (guards: canaries, cover checks, baseline obligation set, bounded concrete runs of the same contracts)",
    "z3 4.x/5.1 (python API) and cvc5 1.0.3 as back ends",
    "numba compiles the @njit subset to the semantics stated in DESIGN.md 1.3 (no bounds checks, negative indices wrap, scalar float division by zero raises)",
]

ASSUMPTIONS = [
    "floats are extended reals: finite arithmetic is exact (no rounding, no float32/float64 distinction)",
    "python/numba int64 arithmetic is mathematical (no overflow)",
    "uint16 validity masks are 16-bit bit-vectors (exact, including carries)",
]

PROPS = {}


def reg(pid, level, explanation, trusted=(), assumptions=()):
    PROPS[pid] = {"level": level, "explanation": explanation, "trusted": list(trusted), "assumptions": list(assumptions)}


reg("C06", "proof",
    "Vfit/Quadratic.refinement_method proved against the property's postconditions for every cost triple and both measures "
    "(non-linear real arithmetic); loop_refinement per-pixel contract, bounds and prange race-freedom obligations.",
    assumptions=["costs are finite or NaN (never +-inf) -- established by the matching-cost contracts of C02"])


reg("C11", "proof",
    "cross-based cost aggregation: the numba kernels cbca_step_1..4 and cross_support proved against prefix-sum / "
    "support-region specifications with loop invariants (all image sizes, all arm lengths), including every unchecked "
    "array access; the numpy glue of cost_volume_aggregation is covered by the bounded stand-in only.")

BOUNDED_ONLY = ("bounded stand-in only so far (labelled bounded, never counted as proved): the real code is run on an enumerated "
                "domain against a naive oracle written from the property statement; contracts for the anchored functions are "
                "being added and move this property to level proof when their obligations discharge")
reg("C03", "proof",
    "winner-takes-all: argmin_split / argmax_split proved for every image size against 'disparity of the first extremum' "
    "(block loops over np.array_split chunks, invariants on y_begin/x_begin), np.argmin/np.argmax/array_split as assumed "
    "contracts; to_disp itself proved over symbolic datasets (vectorised numpy layer): NaN costs substituted by +-inf and "
    "restored, a pixel with a computable cost gets the sampled disparity of the first best non-NaN cost, an all-NaN pixel gets "
    "exactly invalid_disparity, cost volume values unchanged on return, validity mask / confidence / interval carried over.",
    trusted=["assumed contract: np.argmin/np.argmax return the first index of the extremum of a NaN-free axis",
             "assumed contract: np.array_split(a, np.arange(c, n, c), axis) yields the views a[j*c : min((j+1)*c, n)]"])
reg("C14", "proof",
    "occlusion/mismatch filling: find_valid_neighbors (first valid pixel along each of the 8 directions, every path loop "
    "leaves through a break, all unchecked reads in bounds) and the kernels interpolate_occlusion_sgm, "
    "interpolate_mismatch_sgm, interpolate_mismatch_mc_cnn proved pixel by pixel against the property (only flagged pixels "
    "change; filled pixels trade bit 8->4 / 9->5 and receive a non-NaN value taken from / lying between valid "
    "disparities; otherwise untouched); interpolate_occlusion_mc_cnn and the two drivers by the bounded stand-in.",
    trusted=["assumed contracts: np.nanmedian (NaN iff all NaN, else between two non-NaN elements), np.argsort (a permutation), "
             "np.sum over non-negative flags (0 iff all 0)"])
reg("C08", "proof",
    "right products = left products of the mirrored problem: every <step>_run callback (and matching_cost_prepare, "
    "run_multiscale) of the state machine is executed symbolically with the step operations uninterpreted; proved: with right "
    "products enabled the multiset of effects (calls, field stores) on the left/right records is invariant under exchanging "
    "the records (argument order, interval variables, no forgotten right call); without, no right field is written. "
    "The composition over whole pipelines and the numeric step operations are covered by the bounded stand-in.",
    assumptions=["step operations are deterministic functions of their arguments' contents (C18); cross-checking does not alter "
                 "disparities (C07 frame), so the sequential left-then-right validation equals the simultaneous one"])
reg("C18", "proof",
    "thread-schedule independence: for every prange loop of loop_refinement, compute_ambiguity(+sampled), compute_risk(+sampled) "
    "and compute_interval_bounds, two distinct iterations never write the same cell, never read a cell the other writes, and "
    "carry no scalar across iterations (race-freedom obligations over the access log of the symbolic execution; values are not "
    "modelled for the confidence kernels: frame mode); every subscript whose index is modelled is in bounds. "
    "Repetition on one machine, other pipelines on other machines, input datasets untouched: bounded stand-in.",
    trusted=["numba executes each prange iteration atomically w.r.t. its private arrays; numpy calls inside kernels are deterministic",
             "frame mode: results of numpy computations are unconstrained private values; reads/writes at indices computed from them "
             "are treated as touching any cell (no bounds obligation can be stated for them)"])
for _pid in ["C01", "C02", "C04", "C05", "C07", "C09", "C10", "C12", "C13", "C15", "C16", "C17", "C19", "C20"]:
    reg(_pid, "other", BOUNDED_ONLY)

FIX_COMMITS = ['c8eaaa2', '39f21c5', '00e445f', 'cea0f99', '62af5fc', 'd016e8e', 'a2233a1', '3bbb417', 'bdac312', '35f4fa5', 'bcaad45', '42d03b2', 'fd4d6b2', '756db6e', 'abbd602', 'a62df76', 'bf98cec', '1944eb0']
NOT_YET = {}
