"""Per-property registration: claimed level, explanation, property-specific trusted items."""

BOUNDED_TIMEOUT = {"quick": 900, "thorough": 7200}

TRUSTED_BASE = [
    "python ast + pv.extract (function text re-read from /repo on every run; decorators, annotations, docstrings, logging dropped)",
    "pv symbolic executor and its numpy/numba model (guards: canaries, cover checks, baseline obligation set, bounded concrete runs of the same contracts)",
    "z3 4.x/5.1 (python API) and cvc5 1.0.3 as back ends",
    "numba compiles the @njit subset to the semantics stated in DESIGN.md 1.3 (no bounds checks, negative indices wrap, scalar float division by zero raises)",
]

ASSUMPTIONS = [
    "floats are extended reals: finite arithmetic is exact (no rounding, no float32/float64 distinction)",
    "python/numba int64 arithmetic is mathematical (no overflow)",
    "uint16 validity masks are 16-bit bit-vectors (exact, including carries)",
]

PROPS = {}


def reg(pid, level, explanation, trusted=(), assumptions=()):
    PROPS[pid] = {"level": level, "explanation": explanation, "trusted": list(trusted), "assumptions": list(assumptions)}


reg("C06", "proof",
    "Vfit/Quadratic.refinement_method proved against the property's postconditions for every cost triple and both measures "
    "(non-linear real arithmetic); loop_refinement per-pixel contract, bounds and prange race-freedom obligations.",
    assumptions=["costs are finite or NaN (never +-inf) -- established by the matching-cost contracts of C02"])


reg("C11", "proof",
    "cross-based cost aggregation: the numba kernels cbca_step_1..4 and cross_support proved against prefix-sum / "
    "support-region specifications with loop invariants (all image sizes, all arm lengths), including every unchecked "
    "array access; the numpy glue of cost_volume_aggregation is covered by the bounded stand-in only.")

BOUNDED_ONLY = ("bounded stand-in only so far (labelled bounded, never counted as proved): the real code is run on an enumerated "
                "domain against a naive oracle written from the property statement; contracts for the anchored functions are "
                "being added and move this property to level proof when their obligations discharge")
reg("C03", "proof",
    "winner-takes-all: argmin_split / argmax_split proved for every image size against 'disparity of the first extremum' "
    "(block loops over np.array_split chunks, invariants on y_begin/x_begin), np.argmin/np.argmax/array_split as assumed "
    "contracts; to_disp itself proved over symbolic datasets (vectorised numpy layer): NaN costs substituted by +-inf and "
    "restored, a pixel with a computable cost gets disp[argmin/argmax of ITS OWN cost line with NaN read as +-inf] (functional "
    "clause over a ghost volume: the first best computable cost), an all-NaN pixel gets "
    "exactly invalid_disparity, cost volume values unchanged on return, validity mask / confidence / interval carried over.",
    trusted=["assumed contract: np.argmin/np.argmax return the first index of the extremum of a NaN-free axis",
             "assumed contract: np.argmin/np.argmax of a line is a function of the line's contents (two arrays that agree on a line have the same first extremum there)",
             "assumed contract: np.array_split(a, np.arange(c, n, c), axis) yields the views a[j*c : min((j+1)*c, n)]"])
reg("C14", "proof",
    "occlusion/mismatch filling: find_valid_neighbors (first valid pixel along each of the 8 directions, every path loop "
    "leaves through a break, all unchecked reads in bounds) and the kernels interpolate_occlusion_sgm, "
    "interpolate_mismatch_sgm, interpolate_mismatch_mc_cnn proved pixel by pixel against the property (only flagged pixels "
    "change; filled pixels trade bit 8->4 / 9->5 and receive a non-NaN value taken from / lying between valid "
    "disparities; otherwise untouched); interpolate_occlusion_mc_cnn and the two drivers by the bounded stand-in.",
    trusted=["assumed contracts: np.nanmedian (NaN iff all NaN, else between two non-NaN elements), np.argsort (a permutation), "
             "np.sum over non-negative flags (0 iff all 0)"])
reg("C08", "proof",
    "right products = left products of the mirrored problem: every <step>_run callback (and matching_cost_prepare, "
    "run_multiscale) of the state machine is executed symbolically with the step operations uninterpreted; proved: with right "
    "products enabled the multiset of effects (calls, field stores) on the left/right records is invariant under exchanging "
    "the records (argument order, interval variables, no forgotten right call); without, no right field is written. "
    "The composition over whole pipelines and the numeric step operations are covered by the bounded stand-in.",
    assumptions=["step operations are deterministic functions of their arguments' contents (C18); cross-checking does not alter "
                 "disparities (C07 frame), so the sequential left-then-right validation equals the simultaneous one"])
reg("C18", "proof",
    "thread-schedule independence: for every prange loop of loop_refinement, compute_ambiguity(+sampled), compute_risk(+sampled) "
    "and compute_interval_bounds, two distinct iterations never write the same cell, never read a cell the other writes, and "
    "carry no scalar across iterations (race-freedom obligations over the access log of the symbolic execution; values are not "
    "modelled for the confidence kernels: frame mode); every subscript whose index is modelled is in bounds. "
    "Caller's datasets untouched: " + "run_prepare lets only the listed machine fields share memory with the caller's datasets, "
    "and no callback (matching cost, aggregation, confidence, disparity, filter, refinement, validation, multiscale), step "
    "operation or image helper writes in place into what those fields hold -- frame obligations for 45 functions. "
    "State outliving a call: a repository-wide finite data obligation (every function body of the package, re-read on every run) "
    "shows that no function writes a module-level or class-level variable, uses a `global` statement or a mutable default "
    "argument -- except the plug-in registration decorators (import time) and one idempotent completion of the input schema by "
    "constants; what remains is the machine object itself.  Repetition on one machine, other pipelines on other machines: "
    "bounded stand-in.",
    trusted=["numba executes each prange iteration atomically w.r.t. its private arrays; numpy calls inside kernels are deterministic",
             "frame mode: results of numpy computations are unconstrained private values; reads/writes at indices computed from them "
             "are treated as touching any cell (no bounds obligation can be stated for them)"])
FRAME_NOTE = ("frame obligations (back end alias-ai: flow-sensitive may-alias abstract interpretation of the real function text, "
              "repository callees and every registered plug-in class analysed recursively; one obligation per parameter: no in-place "
              "write reaches it outside the contract's assigns set)")
FRAME_TRUSTED = ["alias-ai: numpy/xarray copy-vs-view behaviour as documented (basic indexing, .data/.values, reshape/asarray/sel/isel, "
                 "shallow copies and xarray constructors keep buffers; advanced indexing, arithmetic, astype/copy and documented "
                 "new-array functions give fresh ones); json_checker / transitions / scipy / logging calls do not write into arrays; "
                 "parameters annotated int/float/str/bool receive immutable scalars; no array is reachable through module globals "
                 "(each instance is listed under 'alias.assumed' of the function's evidence record)"]


def other(pid, text, trusted=(), assumptions=()):
    reg(pid, "other", text + "  The remaining clauses of the property are decided by the bounded stand-in only (labelled bounded, "
        "never counted as proved): the real code is run on an enumerated domain against a naive oracle written from the property "
        "statement.", trusted, assumptions)


other("C01", "the transition tables of PandoraMachine (check and run phases) are decided exhaustively as finite data obligations "
      "against the documented machine (@tables: every state/trigger pair, re-read from the class body on every run); 'each step "
      "takes effect on the left data and, when a validation step is present, symmetrically on the right data': every <step>_run "
      "callback is executed symbolically with the step operations uninterpreted and its effects are shown invariant under the "
      "exchange of the left and right records / absent on the right records (the glue contracts of C08); PandoraMachine.check_conf "
      "(trace contract, the loop over the steps summarised by one generic iteration): a first-round check starts from an EMPTY "
      "checked pipeline -- every history of checks on one machine --, the checking transitions are installed before and removed "
      "after the steps, every step of the user's pipeline is triggered in the pipeline's order with the pipeline section and its "
      "own key (a suffixed key fires the trigger of its head), the machine returns to 'begin', a requested right map adds exactly "
      "one second round with the images exchanged and the records point at (left, right) again afterwards; pandora.run, "
      "PandoraMachine.run and run_exit (trace contracts): the machine is prepared once with the configuration's scale parameters "
      "before any step, every step of the pipeline is handed to the machine in the pipeline's own order at every scale, a step "
      "fires the trigger of its head with the whole configuration and its own key, a scale ends early only when the machine is "
      "back at 'begin', the machine is reset once after the steps (run transitions removed, state 'begin'), and the machine's own "
      "left then right disparity datasets are returned; the behaviour of the "
      "transitions library itself (which trigger is legal in which state) and the execution of whole pipelines:",
      trusted=["glue mode: step operations, the transitions library (trigger / add_transitions / remove_transitions / set_state) and "
               "every other callee are uninterpreted; a loop over an opaque iterable is summarised by ONE generic iteration -- the "
               "number of iterations and any state carried from one iteration to the next are not modelled",
               "update_conf(base, overlay) is assumed to take its key order from the base"])
other("C02", "point_interval (the column ranges of the two images that a disparity puts in correspondence: in range, equal length, "
      "offset by the disparity, empty when the disparity exceeds the width) and popcount32b (Hamming weight of a 32-bit word, "
      "bit-vector proof) are proved for all inputs; for sad / ssd the two halves of the measure are proved separately: ad_cost / "
      "sd_cost (monoband: the pixel-wise |L - R| / (L - R)^2 between left column p0+i and right column q0+i) and "
      "pixel_wise_aggregation (every output cell is np.sum over ITS OWN window_size x window_size window of the pixel-wise volume, "
      "NaN exactly when the window holds a NaN; the five-axis as_strided view is shown memory-safe) -- their composition inside "
      "SadSsd.compute_cost_volume is proved END TO END at pixel precision for monoband images, every odd window size >= 3, image size and "
      "disparity list, for both sad and ssd (disparity loop invariant over the enlarged volume, crop / permuted views, border, column "
      "selection): the cost of pixel (y, x) at disparity d is np.sum over the window "
      "centred on it of |L(r, c) - R(r, c + d)| (resp. squared), NaN on the border; reported type_measure is 'min'.  "
      "masks_dilatation (the masks cv_masked lays over the volume) proved for every image size, mask content and odd window, per "
      "structure (mask variable present or not in each image) and sub-pixel precision 1/2/4: a pixel of the left / right mask is NaN "
      "iff it is invalid in ITS OWN image's convention or a no-data pixel of that image lies in the window centred on it, 0 otherwise; "
      "the half-pixel right mask is NaN iff one of its two neighbours is (scipy binary_dilation by an odd square as an assumed contract, "
      "cross-checked numerically).  "
      "shift_right_img / census_transform leave their input image untouched ("
      + FRAME_NOTE + "); census and zncc values, sub-pixel shifts, multiband selection, masks (cv_masked), reported cmax:", trusted=FRAME_TRUSTED + [
          "assumed contract: np.lib.stride_tricks.as_strided(a, shape, strides) with strides taken from a.strides addresses a[idx], "
          "idx[axis] = sum of the view indices carrying that axis's stride",
          "assumed contract: np.sum over a box is a function of the box contents (two arrays that agree on the box give the same sum); "
          "NaN as soon as one element is NaN, and over NaN-or-finite elements NaN only then",
          "assumed contract on AbstractMatchingCost.check_band_input_mc: with no band selected and monoband datasets it returns without effect",
          "assumed contract: scipy.ndimage.binary_dilation(a, structure=np.ones((w, w)), iterations=1) for odd w: out[y, x] iff some a[p, q] "
          "holds with |p - y| <= w // 2 and |q - x| <= w // 2 inside the array (that the structuring element is an odd square is an obligation)",
          "np.amin / np.amax of an image are uninterpreted functions of its contents (finite when all samples are): cmax is reported, not proved"],
      assumptions=["for the end-to-end sad/ssd proof: pixel precision (subpix 1, integer disparities), monoband finite images of equal size, "
                   "every column computed (step 1), window_size == 2 * offset_row_col + 1 >= 3 not larger than the image (the single-pixel window "
                   "takes a code path without the enlarged frame whose obligations were unstable in both solvers: bounded only)"])
reg("C04", "proof",
    "every function that raises a pre-validation bit is under contract and proved over symbolic datasets (vectorised numpy "
    "layer): criteria.mask_border (border pixels end with exactly bit 0); validity_mask for images without input masks (bits 1 "
    "and 2 exactly when the global interval is entirely / partly outside the right image); allocate_left_mask (1 added exactly "
    "on the dilated left no-data map, 64 exactly where the left input mask invalidates the pixel); allocate_right_mask, with a "
    "loop invariant over the integer disparities and an induction lemma on the counters (128 added exactly where, outside the "
    "bit-1 columns, EVERY in-image integer candidate x+d of the global interval is invalidated by the right input mask -- "
    "independently of the number of sub-pixel samples on the disparity axis; 2 added exactly where every candidate is "
    "no-data or outside); mask_invalid_variable_disparity_range (bit 1 added exactly on all-NaN pixels not yet carrying it, "
    "costs untouched).  Later steps only add their own bits: postconditions of the refinement / interpolation kernels (C06, "
    "C14).  validity_mask writes only cv.validity_mask (" + FRAME_NOTE + ").  By the bounded stand-in only: 'invalid flag iff "
    "no computable cost iff disparity == invalid_disparity' on whole pipelines (depends on the cost values, C02), and the "
    "composition validity_mask + masks + cv_masked.",
    trusted=FRAME_TRUSTED + [
        "assumed contract on pandora.criteria.binary_dilation_msk (scipy.ndimage.binary_dilation): a boolean array on the image "
        "grid, a function of the mask contents and the window size; its values stay symbolic in the proofs",
        "assumed: xr.align of the validity mask and an image mask of the same shape is the identity (same coordinate labels)"],
    assumptions=["the disparity axis of the cost volume starts and ends on integers (grid_estimation; sub-pixel samples lie between them)"])
other("C05", "glue contracts on the nine <step>_check_conf callbacks (the step's completed configuration is stored under the user's "
      "key, margins recorded once, no other field written); documented defaults decided as finite data obligations over the class "
      "bodies (@tables, 21 clauses: the class constant has the documented value -- window_size 5, subpix 1, cbca 30.0/5, "
      "invalid_disparity -9999, filter_size 3, sigma 2.0/6.0, eta 0.7/0.01, cross_checking_threshold 1.0, num_scales 2, "
      "scale_factor 2, marge 1 -- and check_conf stores exactly that constant when the key is absent); numeric parameter DOMAINS: for 18 "
      "parameters the predicate of the real json_checker schema entry And(<type>, <lambda>), re-read from the class and executed "
      "with Python semantics, is proved equivalent to the documented domain for every integer / every float incl. NaN and the "
      "infinities (odd positive windows and filter sizes, census 3 or 5, subpix 1 or positive even, cbca / sigma > 0, eta in (0, 1), "
      "num_scales and scale_factor >= 2, marge >= 0); band parameter: check_band_pipeline proved for every list of image band "
      "names and every form of the parameter (none / one name / dictionary / list) to refuse exactly when the image is multiband "
      "and no band is given, or a given band is not one of the image's; key order: check_pipeline_section takes the order of the "
      "returned pipeline from the user's configuration (trace contract); the public check_conf checks the input section first, reads "
      "each image's metadata from its own entries, checks the pipeline against (left, right) and returns the two checked sections "
      "(trace contract); check_input_section merges the user's input over the documented input defaults (nodata -9999, no mask / "
      "classification / segmentation, no right disparity) and returns the merged configuration (trace contract).  That check_conf applies the schema (json_checker "
      "assumed: And(T, f) accepts x iff isinstance(x, T) and bool(f(x))), method names, idempotence, user dictionary untouched:",
      trusted=["json_checker semantics assumed: And(T, f) accepts x iff isinstance(x, T) and bool(f(x))",
               "strings are uninterpreted tokens with equality only; '' is the only falsy string"])
reg("C07", "proof",
    "CrossCheckingAccurate.disparity_checking proved for every image size, interval and threshold over symbolic datasets (row loop "
    "invariant; the row-wise numpy code -- np.where selections, gathers through index vectors, np.tile families, masked updates "
    "of local copies, scatters -- is executed symbolically by a positional selection algebra): a previously valid pixel p keeps "
    "its mask iff its correspondent q = p + rint(dL(p)) lies in the right image and |dL(p) + dR(q)| <= threshold (NaN right "
    "disparities counting as +inf); otherwise 512 (mismatch) is added when some d of the interval has rint(dR(p+d)) == -d and "
    "256 (occlusion) when none does -- never both (exact uint16 arithmetic); already invalid pixels are not re-examined; no "
    "left or right disparity is modified; the last confidence band holds |dL(p)+dR(q)| (NaN where no correspondent was "
    "examined); border pixels end with bit 0 only (mask_border's contract).  Frames of disparity_checking and of the "
    "validation_run callback (" + FRAME_NOTE + ").  By the bounded stand-in only: whole validation steps through the state "
    "machine, right-map production.",
    trusted=FRAME_TRUSTED + [
        "contract on AbstractCostVolumeConfidence.allocate_confidence_map as seen at the call site: returns its dataset arguments with a "
        "rebuilt confidence_measure variable whose last band is the map passed (the clause text is also a postcondition, "
        "band_as_assumed_at_call_sites, of the PROVED contract of that function in contracts/confidence.py; the call site keeps the "
        "assumed form because the proved contract is written per dataset structure)",
        "assumed contract: np.sum of a boolean 2-D family along axis 1 is >= 0 and is 0 iff no element holds",
        "numpy.rint is round-half-to-even on exact reals; astype(int) truncates"],
    assumptions=["a valid left pixel carries a finite disparity; the window offset fits twice in the image (mask_border's precondition)"])
other("C09", "right after the disparity step a pixel with a computable cost lies inside the sampled interval (postcondition "
      "within_interval of WinnerTakesAll.to_disp, proved over symbolic datasets); the later steps keep a valid pixel between "
      "valid disparities: refinement moves a sample by at most half a sample and only when it is the best of its three costs "
      "(Vfit / Quadratic.refinement_method and loop_refinement, the C06 obligations, also run here), the median filter puts a pixel between two "
      "valid disparities of its window (C10), filling takes values between valid disparities of the map (C14); frame of cv_masked "
      "proved: masking writes the cost volume and its validity mask only -- not the caller's disparity grids nor the images ("
      + FRAME_NOTE + "); for sad / ssd at pixel precision the end-to-end contract of SadSsd.compute_cost_volume (C02) gives each "
      "cost as a function of the two images, the pixel, the window and ITS OWN disparity only -- hence independent of which other "
      "disparities were requested; interval independence for census / zncc / sub-pixel costs (a two-run property) and per-pixel grids:",
      trusted=FRAME_TRUSTED)
reg("C10", "proof",
    "median: MedianFilter.median_filter proved for every image size and every odd filter size against the property -- NaN "
    "(invalid) pixels stay NaN, valid pixels closer to an edge than the radius keep their value, every other valid pixel is the "
    "NaN-ignoring median of ITS OWN filter_size window whatever the 100-pixel processing blocks (loop invariants over the "
    "np.array_split chunk loops; as_strided window views with a memory-safety obligation); MedianFilter.filter_disparity "
    "proved over symbolic datasets, using median_filter's contract: validity mask unchanged, invalid pixels untouched, edge "
    "pixels untouched, every other valid pixel non-NaN and between two valid disparities of its window.  bilateral: "
    "filter_bilateral proved for every image size and sigma_space -- window width min(rows, cols, int(3 sigma_space + 1)), NaN "
    "stays NaN, edges untouched, every other valid pixel is bilateral_kernel applied to its own window whatever the 50-pixel "
    "blocks; filter_disparity: mask unchanged, invalid and edge pixels untouched.  Frames of the three filters and of the "
    "filter_run callback (" + FRAME_NOTE + ").  By the bounded stand-in only: the numeric value of bilateral_kernel (Gaussian "
    "weighted mean), median_for_intervals values and bit 11, whole pipelines.",
    trusted=FRAME_TRUSTED + [
        "assumed contract: np.lib.stride_tricks.as_strided(a, shape=(H-h+1, W-w+1, h, w), strides=a.strides+a.strides)[i,j,p,q] is a[i+p, j+q]",
        "assumed contract: np.array_split(a, np.arange(c, n, c), axis) yields len(arange)+1 views a[min(jc,L):min((j+1)c,L)], the last up to L",
        "assumed contract: np.nanmedian of a window is NaN iff all elements are NaN, else a non-NaN value between two non-NaN "
        "elements, and a function of the window contents only",
        "assumption: BilateralFilter.bilateral_kernel(windows, kernel, sigma_color, offset)[i, j] depends on windows[i, j, :, :] and "
        "the scalar arguments only (its values are checked by the bounded stand-in)"],
    assumptions=["filter_size is odd and not larger than the image (even sizes are rejected by check_conf: C05)"])
other("C12", "band bookkeeping proved on the real AbstractCostVolumeConfidence.allocate_confidence_map (the one function through "
      "which every confidence method and cross-checking store their indicator), for every image size, band count and content, once "
      "per structure of the two datasets (None / no confidence_measure yet / some bands: 9 cases): exactly one band is appended, "
      "it is named confidence_from_<name> and holds the map passed, every earlier band and band name is kept in place, the cost "
      "volume / disparity map / validity mask values and the row/col/disp coordinates are as before, and a disparity dataset "
      "without bands takes over all the bands of the cost volume (numpy/xarray glue modelled: np.full, slice stores, np.copy, "
      "np.append, drop_dims, xr.DataArray(coords, dims), label alignment of ds[k] = DataArray as an obligation; strings as "
      "uninterpreted tokens with == only).  Frames of the four confidence_prediction methods and of the cost_volume_confidence_run "
      "callback proved: the cost volume values, the images and the existing arrays are not written (" + FRAME_NOTE + "); prange "
      "race-freedom of the kernels (C18); glue contract of the callback (indicator suffix); the indicator values:",
      trusted=FRAME_TRUSTED + [
          "xarray modelled positionally: drop_dims returns a dataset sharing the remaining variables; ds[k] = DataArray adds the "
          "DataArray's coordinate for a dimension the dataset lacks and otherwise needs equal labels (obligation)",
          "strings are uninterpreted tokens: 'confidence_from_' + name is a function of the two strings, nothing else is known of it "
          "(fixed-width unicode truncation is outside the model: a change introducing it leaves the verified subset and is reported)"])
other("C13", "criteria.validity_mask (flags of a pixel depend on its column, the interval and the image width only) proved; the "
      "functions that process an image in internal blocks are proved position-independent for every image size -- each output pixel "
      "is a function of its own window / cost column only, wherever the 100- or 50-pixel block boundaries fall: "
      "argmin_split / argmax_split (C03), MedianFilter.median_filter and BilateralFilter.filter_bilateral (C10), and they write into "
      "fresh arrays only (assigns()); for sad / ssd at pixel precision the end-to-end contract of SadSsd.compute_cost_volume (C02) "
      "makes each cost a function of the samples inside the pixel's window box only; dependency cone / crop independence of whole "
      "pipelines, float accumulation order:",
      trusted=["assumed contracts on np.argmin/np.argmax/np.array_split/np.nanmedian/as_strided as listed under C03 and C10"])
other("C15", "read_multiscale_params proved per configuration structure (4 cases): the number of scales and the scale factor are those of "
      "the first pipeline step named multiscale or multiscale.<suffix>, and (1, 1) when there is none (the suffix-only case is the "
      "defect a62df76 repaired: multiscale never ran); frames proved: FixedZoomPyramid.disparity_range, prepare_pyramid and fill_nodata_image leave the images and the "
      "coarser disparity dataset untouched; run_multiscale only rebinds the machine's fields and pops its own pyramids ("
      + FRAME_NOTE + "); scale schedule and interval propagation:", trusted=FRAME_TRUSTED)
other("C16", "img_tools.get_window (ROI window clipped to the image, first/last row and column included) proved for all inputs; "
      "add_disparity with a [min, max] pair proved for every image size (a (2, rows, cols) variable holding min then max under the "
      "labels min / max; nothing added for None; the image untouched); "
      "add_no_data (NaN / infinite no-data samples, and only those, become -9999; the recorded nodata value follows) and add_mask "
      "(no mask variable iff there is neither an input mask nor a no-data sample; otherwise a pixel is no-data exactly on the "
      "no-data samples, invalid exactly where the input mask is non-zero and the pixel is not no-data, valid elsewhere) proved over "
      "symbolic monoband datasets, the raster read of the mask file being an assumed pure function; file reading, band names, "
      "disparity variable, classification / segmentation, ROI equals crop:",
      trusted=["assumed: rasterio reader.read(band, window=w) is a pure function of (path, band, window) returning a 2-D integer "
               "array of the window's size (the size is a stated precondition: the input checker of C17 enforces it)"])
other("C17", "dataset side: check_dataset is proved, once per STRUCTURE of the dataset (8 cases: image only; + mask; multiband with "
      "string band names + mask + 3-D classification + segmentation; numeric band names; no image; + disparity grids with a "
      "band_disp coordinate; disparity without band_disp; a mandatory attribute missing) and for every size and content, to raise "
      "(whatever exception) IF AND ONLY IF the statement's refusal condition holds -- no image, band names that are not strings, "
      "an image entirely NaN, a variable off the image's row/column grid, a mandatory attribute missing, a disparity variable "
      "without min and max bands or with min > max at some pixel; check_datasets is proved over 3 x 4 structure pairs, modularly "
      "from check_dataset's contract: refused iff one dataset is refused, or the left has no disparity variable, or the two "
      "images differ in size.  Input side: check_disparities_from_input (list: exactly two values with min <= max; grid file: 2 "
      "bands, image size, min band <= max band everywhere -- which exception, and iff) and check_image_dimension, raster files "
      "being opaque (count / width / height / bands are assumed pure functions of the path).  check_input_section (trace contract): "
      "the user's input section laid over the documented defaults, the schema chosen by the form of the two disparity entries "
      "(left a list: integer schema; else right a path: grids/grids; else grids/none) and validated on the merged configuration "
      "BEFORE the custom checks, each side's disparity checked against its own image, the merged configuration returned.  The "
      "content of the three schemas (json_checker), file readability:",
      trusted=["xarray modelled structurally: a dataset is a finite map of typed arrays with declared dimensions; membership, "
               "iteration over variable names, .coords of a DataArray, .sel(label) (the label's existence is an obligation, its "
               "uniqueness a stated precondition), set.issubset(labels) are modelled; arrays are homogeneous (a band_im coordinate "
               "mixing strings and numbers is outside the model)",
               "assumed: rasterio_open(path).count / .width / .height / .read(band) are pure functions of the path",
               "the structure cases are a finite enumeration: a dataset shape outside them is covered by the bounded stand-in only"])
other("C19", "trace contracts (orchestration mode: file and raster operations uninterpreted) on the two writers of pandora/common.py: "
      "save_results hands every product of a dataset to write_data_array under the file of that name, with THAT dataset's crs / "
      "transform, the validity masks as uint16, the confidence bands under their indicator names, the right products exactly when "
      "the right dataset is not empty (62 obligations over the 6 paths); save_config serialises the configuration it is given, as "
      "it is (no key sorting: the pipeline is an ordered mapping), into cfg/config.json.  write_data_array is proved (value "
      "mode, loop invariant over the bands) to leave in the file exactly the array: band k of the file is plane k of a (row, col, "
      "band) DataArray -- or the 2-D array itself -- and the file has the array's size; the raster is an uninterpreted writer "
      "(write(a, k) stores a as band k: assumed).  The JSON round trip, GeoTIFF encoding and the replay of the saved configuration "
      "through the command line:",
      trusted=["assumed: a rasterio writer opened with count/height/width holds count bands of that size and write(a, k) replaces band k "
               "by a (the array having the file's size and k within the count are obligations)"])
other("C20", "margin tables of every step class decided exhaustively (@tables), Margins descriptors and the margins getters of "
      "the matching-cost / filter classes proved (value contracts), max_margins proved for sequences of one to three margins (per "
      "side an upper bound that is attained: 'the larger of'), glue contracts on the <step>_check_conf callbacks (each step "
      "records its margins exactly once under its own name); the global margins of whole pipelines:")

for _pid in ["C03", "C06", "C08", "C11", "C14", "C18"]:
    PROPS[_pid]["trusted"] += FRAME_TRUSTED
    if _pid != "C18":
        PROPS[_pid]["explanation"] += "  Frames of the numpy/xarray drivers of this step: " + FRAME_NOTE + "."

FIX_COMMITS = ['c8eaaa2', '39f21c5', '00e445f', 'cea0f99', '62af5fc', 'd016e8e', 'a2233a1', '3bbb417', 'bdac312', '35f4fa5', 'bcaad45', '42d03b2', 'fd4d6b2', '756db6e', 'abbd602', 'a62df76', 'bf98cec', '1944eb0', '9f9ea00', 'f945bb8']
NOT_YET = {}
