"""Regenerate MANIFEST.json from checks/props.py (claimed properties) -- run by hand after editing props.py."""
import json
import os
import sys
HERE = os.path.dirname(os.path.dirname(os.path.abspath(__file__)))
sys.path.insert(0, HERE)
from checks import props

BASE_CMD = "cd /repo && /venv/bin/python -m pytest -ra -q -p no:cacheprovider --timeout=900 --continue-on-collection-errors"
m = {
    "version": 1,
    "setup_cmd": "python3-vt -m pv.setup",
    "hooks": {"guard": "PANDORA_VERIF", "enable": "no source hooks: contracts are sidecar files under /verif/contracts; "
              "the checks read /repo's working tree as text (prover) and import it under /venv/bin/python (replay, bounded stand-in)",
              "baseline_off_cmd": BASE_CMD, "source_commits": props.FIX_COMMITS, "add_only": True},
    "engines": [{"name": "pv", "path": "pv/", "serves_properties": sorted(props.PROPS),
                 "kind_free_text": "verification-condition generator over the real Python source (ast -> z3/cvc5), sidecar contracts, "
                 "replay of counter-models on the real code; bounded concrete contract evaluation as labelled stand-in"}],
    "checks": [],
    "not_applicable": [],
    "notes": "exit codes of every check: 0 held, 1 violation (VIOLATION line), 2 undecided, 3 checker fault. See DESIGN.md.",
}
for i in range(1, 21):
    pid = "C%02d" % i
    if pid in props.PROPS:
        p = props.PROPS[pid]
        m["checks"].append({
            "property_id": pid,
            "quick_cmd": "python3-vt checks/check.py %s --tier quick" % pid,
            "thorough_cmd": "python3-vt checks/check.py %s --tier thorough" % pid,
            "evidence_file": "evidence/%s.json" % pid,
            "replay_cmd_template": "python3-vt checks/check.py %s --replay {path}" % pid,
            "engine": "pv",
            "level_claimed": {"category": p["level"], "text": p["explanation"], "design_ref": "DESIGN.md section 2, " + pid},
            "level_note": "; ".join(props.TRUSTED_BASE[:2] + p["trusted"] + p["assumptions"]) or "see evidence.assumptions",
            "technique": p.get("technique", "contract-based deductive verification: VC generation over extracted source + z3/cvc5; bounded contract evaluation as labelled stand-in"),
        })
    else:
        m["not_applicable"].append({"property_id": pid, "reason": props.NOT_YET.get(pid, "check not built yet (work in progress; DESIGN.md section 6)")})
json.dump(m, open(os.path.join(HERE, "MANIFEST.json"), "w"), indent=1)
print("checks:", [c["property_id"] for c in m["checks"]])
