#!/bin/bash
# confirm_seed.sh <worktree> <name>: confirm a seeded change in ITS OWN scratch worktree (demo fails with / passes without,
# the suite still passes), then store it under /verif/seeded/<name>/
WT=$1; NAME=$2
OUT=/verif/seeded/$NAME
mkdir -p $OUT
cd $WT || exit 2
git diff -- pandora > $OUT/patch.diff
cp SEED/demo.py $OUT/demo.py
cp SEED/meta.json $OUT/meta.agent.json
export PYTHONPATH=$WT NUMBA_CACHE_DIR=/tmp/numba_seed_$NAME
/venv/bin/python SEED/demo.py > $OUT/demo_with_change.log 2>&1; W=$?
git apply -R $OUT/patch.diff
/venv/bin/python SEED/demo.py > $OUT/demo_pristine.log 2>&1; P=$?
git apply $OUT/patch.diff
timeout 3000 /venv/bin/python -m pytest -q -p no:cacheprovider --timeout=900 tests --deselect tests/test_notebooks.py --deselect tests/test_pandora.py::TestPandora::test_dataset_image > $OUT/suite.log 2>&1; S=$?
echo "{\"demo_with_change_exit\": $W, \"demo_pristine_exit\": $P, \"suite_exit\": $S, \"suite_tail\": \"$(tail -n 1 $OUT/suite.log | tr -d '\"')\"}" > $OUT/confirm.json
cat $OUT/confirm.json
