#!/usr/bin/env python3-vt
"""Single entry point:  python3-vt checks/check.py C07 [--tier quick|thorough] [--replay FILE]

exit 0 = held on everything explored (KNOWN-FINDING lines allowed), 1 = violation (VIOLATION line printed),
2 = undecided (no VIOLATION line), 3 = checker fault / vacuity.
"""
import argparse
import hashlib
import json
import os
import re
import subprocess
import sys
import time

HERE = os.path.dirname(os.path.dirname(os.path.abspath(__file__)))
sys.path.insert(0, HERE)
os.chdir(HERE)

from pv import contracts, prove  # noqa: E402
from checks import props  # noqa: E402

VENV_PY = os.environ.get("PANDORA_PY", "/venv/bin/python")
REPO = os.environ.get("PANDORA_REPO", "/repo")


def sanitize(s):
    return re.sub(r"[^A-Za-z0-9_.~-]", "_", s)[-150:]


def load_known():
    p = os.path.join(HERE, "known_findings.json")
    if not os.path.exists(p):
        return {"known": [], "fixed": []}
    return json.load(open(p))


def match_known(known, pid, ident, witness_class=None):
    for k in known.get("known", []):
        if k["property"] != pid:
            continue
        if not re.search(k["match"], ident):
            continue
        if k.get("witness_class") and witness_class is not None and not re.search(k["witness_class"], witness_class):
            continue
        return k
    return None


def stable_clause_id(oid):
    """identity used for the baseline comparison: contract-driven obligations only, without path ordinals"""
    base = oid.split("~")[0]
    kind = base.split("#")[1] if "#" in base else ""
    if kind in ("post", "noraise", "raise", "lemma", "lemma-base", "lemma-step", "inv-entry", "inv-keep", "cover", "canary", "table", "after"):
        return base
    return None


def run_replay(path):
    env = dict(os.environ, PYTHONPATH=REPO + os.pathsep + HERE, NUMBA_CACHE_DIR=os.environ.get("NUMBA_CACHE_DIR", "/tmp/pv_numba_cache"))
    try:
        p = subprocess.run([VENV_PY, os.path.join(HERE, "pv", "rt.py"), path], capture_output=True, text=True, timeout=600, env=env)
        return p.returncode == 0, (p.stdout + p.stderr)[-2000:]
    except subprocess.TimeoutExpired:
        return False, "replay timed out"


def run_fuzz(targets, tier, seed, out):
    """bounded contract evaluation of every function under contract on the real code (labelled bounded)"""
    if not targets:
        return []
    env = dict(os.environ, PYTHONPATH=REPO + os.pathsep + HERE, NUMBA_CACHE_DIR=os.environ.get("NUMBA_CACHE_DIR", "/tmp/pv_numba_cache"))
    n = "300" if tier == "quick" else "5000"
    cmd = [VENV_PY, "-m", "pv.fuzz", out, str(seed), n] + targets
    try:
        subprocess.run(cmd, capture_output=True, text=True, timeout=1800, env=env, cwd=HERE)
    except subprocess.TimeoutExpired:
        return [{"target": "*", "evaluations": 0, "accepted": 0, "violations": [], "errors": ["fuzz timed out"]}]
    if not os.path.exists(out):
        return [{"target": "*", "evaluations": 0, "accepted": 0, "violations": [], "errors": ["fuzz produced no output"]}]
    r = json.load(open(out))
    os.unlink(out)
    return r


def load_baseline(pid):
    p = os.path.join(HERE, "baseline_obligations.json")
    if not os.path.exists(p):
        return {"clauses": [], "allproved": []}
    return json.load(open(p)).get(pid, {"clauses": [], "allproved": []})


def in_baseline(bl, x):
    sid = stable_clause_id(x["id"])
    if sid is not None and sid in bl["clauses"]:
        return True
    return [x["function"], x["kind"]] in bl["allproved"]


def run_bounded(pid, tier, seed, out):
    mod = os.path.join(HERE, "bounded", pid + ".py")
    if not os.path.exists(mod):
        return None
    env = dict(os.environ, PYTHONPATH=REPO + os.pathsep + HERE, NUMBA_CACHE_DIR=os.environ.get("NUMBA_CACHE_DIR", "/tmp/pv_numba_cache"))
    cmd = [VENV_PY, "-m", "bounded.run", pid, "--tier", tier, "--seed", str(seed), "--out", out]
    try:
        p = subprocess.run(cmd, capture_output=True, text=True, timeout=props.BOUNDED_TIMEOUT[tier], env=env, cwd=HERE)
    except subprocess.TimeoutExpired:
        return {"error": "bounded runner timed out"}
    if not os.path.exists(out):
        return {"error": "bounded runner produced no result: " + (p.stdout + p.stderr)[-1500:]}
    r = json.load(open(out))
    r["stderr_tail"] = p.stderr[-500:]
    return r


def main():
    ap = argparse.ArgumentParser()
    ap.add_argument("pid")
    ap.add_argument("--tier", default=os.environ.get("VERIF_TIER", "quick"))
    ap.add_argument("--replay")
    ap.add_argument("--no-bounded", action="store_true")
    a = ap.parse_args()
    pid = a.pid
    tier = a.tier if a.tier in ("quick", "thorough") else "quick"
    seed = int(os.environ.get("VERIF_SEED", "0") or 0)
    if a.replay:
        rec = json.load(open(a.replay))
        if rec.get("source") == "bounded":
            env = dict(os.environ, PYTHONPATH=REPO + os.pathsep + HERE)
            p = subprocess.run([VENV_PY, "-m", "bounded.run", pid, "--replay", a.replay], env=env, cwd=HERE)
            sys.exit(1 if p.returncode == 0 else 0)
        ok, out = run_replay(a.replay)
        print(out)
        if ok:
            print("VIOLATION property=%s replay=%s" % (pid, a.replay))
        sys.exit(1 if ok else 0)

    t0 = time.time()
    info = props.PROPS[pid]
    known = load_known()
    db = contracts.ContractDB()
    cs, ls = db.for_property(pid)
    timeout_ms = 20000 if tier == "quick" else 120000
    r = prove.prove_targets(db, cs, ls, timeout_ms=timeout_ms)
    results = r["results"]
    rdir = os.path.join(HERE, "replays", pid)
    if os.path.isdir(rdir):  # replay files belong to one run
        for f in os.listdir(rdir):
            os.unlink(os.path.join(rdir, f))
    violations, undecided, faults, known_seen = [], [], [], []
    for u in r["undecided_functions"]:
        undecided.append({"obligation": u["function"], "reason": u["reason"]})
    contract_of = {f["qualname"]: f["contract"] for f in r["functions"]}
    n_ob = n_dis = n_canary = n_cover = 0
    backends = {}
    solver_ms = 0
    bl = load_baseline(pid)
    os.makedirs(os.path.join(HERE, "scratch"), exist_ok=True)
    fz_targets = []
    for f in r["functions"]:
        t = f["qualname"] + ("=" + f["contract"] if f["contract"] != f["qualname"] else "")
        if t not in fz_targets and not f.get("no_fuzz"):
            fz_targets.append(t)
    for u in r["undecided_functions"]:
        # a function that left the supported subset is still evaluated concretely against its contract
        if u["function"].startswith("lemma:"):
            continue
        t = u["function"] + ("=" + u["contract"] if u.get("contract") and u["contract"] != u["function"] else "")
        if t not in fz_targets:
            fz_targets.append(t)
    fuzz = run_fuzz(fz_targets, tier, seed, os.path.join(HERE, "scratch", "fuzz_%s_%d.json" % (pid, os.getpid())))
    fuzz_viol = {}
    for fr in fuzz:
        for e in fr.get("errors", []):
            if "crashed" in e or "timed out" in e or "no output" in e:
                faults.append("contract sampling of %s: %s" % (fr["target"], e))
        for v in fr["violations"]:
            fuzz_viol.setdefault(fr["target"], []).append(v)
    reported_funcs = set()
    for x in results:
        solver_ms += x["ms"]
        if x["expect_sat"]:
            if x["kind"] == "canary":
                n_canary += 1
            else:
                n_cover += 1
            if x["result"] == "unsat":
                faults.append("vacuity: %s is unsatisfiable (%s)" % (x["id"], x["text"]))
            continue
        n_ob += 1
        if x["result"] == "unsat":
            n_dis += 1
            backends[x["backend"]] = backends.get(x["backend"], 0) + 1
            continue
        k = match_known(known, pid, x["id"])
        os.makedirs(rdir, exist_ok=True)
        path = os.path.join(rdir, sanitize(x["id"]) + ".json")
        rec = {"property": pid, "source": "prover", "obligation": x["id"], "function": x["function"],
               "contract": contract_of.get(x["function"], x["function"]), "clause": x["text"], "line": x["line"],
               "witness": x["witness"], "solver": {"backend": x["backend"], "result": x["result"], "ms": x["ms"],
                                                    "detail": x["detail"]}}
        json.dump(rec, open(path, "w"), indent=1, default=str)
        confirmed = False
        if x["result"] in ("sat", "unknown") and x["witness"] and not any(isinstance(v, dict) and v.get("error") for v in x["witness"].values()):
            confirmed, out = run_replay(path)
        if not confirmed and fuzz_viol.get(x["function"]):
            # the solver's model is not a failing input (loop-head state, or no model): use the failing input that the
            # bounded evaluation of the same contract found on the real code
            rec["source"] = "fuzz"
            rec["witness"] = fuzz_viol[x["function"]][0]["inputs"]
            rec["fuzz"] = fuzz_viol[x["function"]][0]
            json.dump(rec, open(path, "w"), indent=1, default=str)
            confirmed, out = run_replay(path)
        if k:
            known_seen.append({"finding": k["what"], "obligation": x["id"], "replayed": confirmed})
            n_ob -= 1
            continue
        if confirmed or x["result"] == "sat" or in_baseline(bl, x):
            # refuted, or an obligation discharged on the reference tree that no longer is
            violations.append({"obligation": x["id"], "replay": path, "confirmed": confirmed,
                               "text": "%s [%s by %s%s]" % (x["text"], x["result"], x["backend"], (": " + x["detail"]) if x["detail"] else "")})
            reported_funcs.add(x["function"])
        else:
            undecided.append({"obligation": x["id"], "reason": "%s (%s)" % (x["result"], x["detail"])})
    # failing inputs found by the bounded evaluation although no obligation failed: the engine or a contract is wrong
    for tgt, vs in fuzz_viol.items():
        if tgt.split("=")[0] in reported_funcs:
            continue
        v = vs[0]
        kf = match_known(known, pid, tgt + "#fuzz#" + ",".join(v["violated"]))
        if kf:
            known_seen.append({"finding": kf["what"], "obligation": tgt + "#fuzz"})
            continue
        os.makedirs(rdir, exist_ok=True)
        path = os.path.join(rdir, sanitize(tgt + "-fuzz") + ".json")
        f0 = tgt.split("=")[0]
        json.dump({"property": pid, "source": "fuzz", "obligation": f0 + "#fuzz#" + ",".join(v["violated"]), "function": f0,
                   "contract": contract_of.get(f0, f0), "clause": ",".join(v["violated"]), "witness": v["inputs"], "fuzz": v},
                  open(path, "w"), indent=1, default=str)
        violations.append({"obligation": f0 + "#fuzz#" + ",".join(v["violated"]), "replay": path, "confirmed": True,
                           "text": "bounded evaluation of the contract on the real code: " + ",".join(v["violated"])})
    if n_ob == 0 and cs:
        faults.append("zero obligations generated")
    und_funcs = set(u["function"] for u in r["undecided_functions"])
    have = set(filter(None, (stable_clause_id(x["id"]) for x in results)))
    missing = [b for b in bl["clauses"] if b not in have and not any(b.startswith(f) for f in und_funcs)]
    if missing:
        faults.append("obligations of the committed baseline were not generated: %s" % missing[:5])
    for u in r["undecided_functions"]:
        # a function that was under contract on the reference tree and left the verified subset: every obligation of the
        # committed baseline on it "passed on the unchanged tree and now fails" -- reported once, with the engine's reason;
        # a concrete failing input found by the bounded evaluation of the same contract is reported separately above
        pre = u.get("prefix") or u["function"]   # one case of a case-split contract leaves the subset on its own
        lost = [b for b in bl["clauses"] if b.startswith(pre + "#")]
        if not lost:
            continue
        os.makedirs(rdir, exist_ok=True)
        path = os.path.join(rdir, sanitize(pre + "_left_verified_subset") + ".json")
        json.dump({"property": pid, "source": "prover", "obligation": lost[0], "function": u["function"],
                   "lost_baseline_obligations": lost, "verifier_output": u.get("reason"), "witness": None},
                  open(path, "w"), indent=1, default=str)
        violations.append({"obligation": lost[0], "replay": path, "confirmed": False,
                           "text": "%d obligation(s) discharged on the reference tree can no longer be generated: %s"
                                   % (len(lost), u.get("reason"))})
    # bounded stand-in
    bounded = None
    if not a.no_bounded:
        os.makedirs(os.path.join(HERE, "scratch"), exist_ok=True)
        bout = os.path.join(HERE, "scratch", "bounded_%s_%d.json" % (pid, os.getpid()))
        bounded = run_bounded(pid, tier, seed, bout)
        if os.path.exists(bout):
            os.unlink(bout)
        if bounded is not None:
            if bounded.get("error"):
                faults.append("bounded: " + bounded["error"])
            for v in bounded.get("violations", []):
                k = match_known(known, pid, v["clause"], v.get("witness_class", ""))
                if k:
                    known_seen.append({"finding": k["what"], "clause": v["clause"], "witness_class": v.get("witness_class")})
                    continue
                os.makedirs(rdir, exist_ok=True)
                path = os.path.join(rdir, sanitize("bounded_" + v["clause"] + "_" + hashlib.sha1(json.dumps(v, sort_keys=True, default=str).encode()).hexdigest()[:8]) + ".json")
                json.dump(dict(v, property=pid, source="bounded"), open(path, "w"), indent=1, default=str)
                violations.append({"obligation": "bounded:" + v["clause"], "replay": path, "confirmed": True,
                                   "text": v.get("message", "")})
    # ------------------------------------------------------------------ evidence
    level = info["level"]
    cov = {
        "obligations": n_ob, "discharged": n_dis,
        "checker_cmd": "python3-vt checks/check.py %s --tier %s" % (pid, tier),
        "trusted_base": props.TRUSTED_BASE + info.get("trusted", []),
        "functions_under_contract": r["functions"],
        "backends": backends, "solver_time_s": round(solver_ms / 1000.0, 2),
        "vc_generation_s": r["gen_s"], "canaries_refuted": n_canary, "covers_sat": n_cover,
        "undecided": undecided, "faults": faults, "known_findings_seen": known_seen,
        "samples": [{k: x[k] for k in ("id", "kind", "function", "backend", "result", "ms", "text")} for x in results[:12]],
        "explanation": info["explanation"],
    }
    cov["contract_sampling"] = [{k: fr.get(k) for k in ("target", "evaluations", "accepted")} for fr in fuzz]
    cov["contract_sampling_note"] = ("BOUNDED (never counted as proved): the real functions under contract were executed on "
                                     "generated inputs and the same contract text evaluated concretely")
    if bounded is not None and not bounded.get("error"):
        cov["bounded"] = {k: bounded.get(k) for k in ("bound", "evaluations", "distinct_nontrivial", "rule", "samples", "functions")}
        cov["evaluations"] = bounded.get("evaluations", 0)
        cov["distinct_nontrivial"] = bounded.get("distinct_nontrivial", 0)
        cov["rule"] = "BOUNDED STAND-IN (never counted in obligations/discharged): " + str(bounded.get("rule"))
    ev = {"property_id": pid, "tier": tier, "seed": seed, "level": level, "coverage": cov,
          "assumptions": props.ASSUMPTIONS + info.get("assumptions", []) + db.scan_assumptions(),
          "wall_s": round(time.time() - t0, 2), "violations": len(violations)}
    os.makedirs(os.path.join(HERE, "evidence"), exist_ok=True)
    json.dump(ev, open(os.path.join(HERE, "evidence", pid + ".json"), "w"), indent=1, default=str)
    # ------------------------------------------------------------------ verdict
    for k in known_seen:
        print("KNOWN-FINDING: property=%s %s" % (pid, k["finding"]))
    for v in violations:
        tail = "" if v["confirmed"] else " no-failing-input-found"
        print("# failed obligation %s : %s" % (v["obligation"], v["text"][:200]))
        print("VIOLATION property=%s replay=%s%s" % (pid, v["replay"], tail))
    for u in undecided:
        print("UNDECIDED property=%s obligation=%s reason=%s" % (pid, u["obligation"], u["reason"][:300]))
    for f in faults:
        print("FAULT property=%s %s" % (pid, f))
    print("%s: obligations=%d discharged=%d violations=%d undecided=%d known=%d bounded_evals=%s wall=%.1fs" % (
        pid, n_ob, n_dis, len(violations), len(undecided), len(known_seen),
        (bounded or {}).get("evaluations"), time.time() - t0))
    if violations:
        sys.exit(1)
    if faults:
        sys.exit(3)
    if undecided:
        sys.exit(2)
    sys.exit(0)


if __name__ == "__main__":
    main()
